#!/bin/bash
# Usage: confirm_seed.sh <worktree> : re-confirms a seeded change produced by a sub-agent.
# (1) existing suite passes with the change, (2) demo fails with it, (3) demo passes without it.
WT=$1; cd "$WT" || exit 2
export CARGO_TARGET_DIR=$WT/target CARGO_NET_OFFLINE=true
mkdir -p /tmp/confirm; ID=$(basename $WT)
git diff -- . ':!tests/seeded_demo.rs' ':!seeded' > /tmp/confirm/$ID.diff
[ -s /tmp/confirm/$ID.diff ] || { echo "$ID: no source change"; exit 2; }
mv tests/seeded_demo.rs /tmp/confirm/$ID.demo.rs 2>/dev/null
cargo nextest run --workspace --no-fail-fast --tool-config-file pb:/w/lib/nextest.toml --profile pb --test-threads 8 --offline > /tmp/confirm/$ID.suite.log 2>&1
SUITE=$(grep "Summary" /tmp/confirm/$ID.suite.log | tail -1)
cp /tmp/confirm/$ID.demo.rs tests/seeded_demo.rs
cargo test --offline --test seeded_demo > /tmp/confirm/$ID.demo_with.log 2>&1; WITH=$?
git apply -R /tmp/confirm/$ID.diff
cargo test --offline --test seeded_demo > /tmp/confirm/$ID.demo_without.log 2>&1; WITHOUT=$?
git apply /tmp/confirm/$ID.diff
echo "$ID: suite: $SUITE | demo with change exit=$WITH (expect !=0) | demo without change exit=$WITHOUT (expect 0)"
