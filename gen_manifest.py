#!/usr/bin/env python3
"""Regenerates MANIFEST.json from harnesses.py (claimed properties) and the not-applicable list."""
import json
import os
import subprocess
import sys

ROOT = os.path.dirname(os.path.abspath(__file__))
sys.path.insert(0, ROOT)
from harnesses import PROPS, NOT_APPLICABLE  # noqa: E402

hooks = subprocess.run(["git", "-C", "/repo", "log", "--format=%H %s"], stdout=subprocess.PIPE, text=True).stdout
hook_commits = [l.split()[0] for l in hooks.splitlines() if " verif hooks:" in l]

checks = []
for pid in sorted(PROPS):
    p = PROPS[pid]
    checks.append({
        "property_id": pid,
        "quick_cmd": "./check %s --tier quick" % pid,
        "thorough_cmd": "./check %s --tier thorough" % pid,
        "evidence_file": "/verif/evidence/%s.json" % pid,
        "replay_cmd_template": "./check %s --replay {path}" % pid,
        "engine": "kani-cbmc",
        "level_claimed": {
            "category": "model_checking",
            "text": "Bounded model checking of the real compiled code: " + p["claim"]
                    + " NOT covered: " + p.get("not_covered", ""),
            "design_ref": "DESIGN.md section 4 (%s)" % pid,
        },
        "level_note": "Trusted: Kani 0.68 MIR->goto translation, CBMC 6.11 bit-precise semantics, CaDiCaL; the stubs and "
                      "assumptions listed per harness in the evidence; the reference oracles written in the harness crates. "
                      "Bounded: every harness states its input bound and unwinding bound (unwinding assertions on); nothing is "
                      "claimed outside them. Counterexamples are replayed against the native (unstubbed) build in dev and "
                      "release profiles before a VIOLATION is reported.",
        "technique": "symbolic execution of the compiled Rust code with Kani, decided by CBMC/CaDiCaL (SAT-based bounded "
                     "model checking over kani::any() inputs, unwinding assertions on, cover-based vacuity guard, native replay "
                     "of counterexamples)",
    })

manifest = {
    "version": 1,
    "setup_cmd": "./setup.sh",
    "hooks": {
        "guard": "cargo feature verif-hooks (async-graphql, async-graphql-parser, async-graphql-value)",
        "enable": "the harness crates under /verif/harness depend on /repo by path with features = [\"verif-hooks\"]",
        "baseline_off_cmd": "cd /repo && cargo nextest run --workspace --no-fail-fast --tool-config-file pb:/w/lib/nextest.toml --profile pb --test-threads 8 --offline || cargo test --workspace --no-fail-fast --offline",
        "source_commits": hook_commits,
        "add_only": True,
    },
    "engines": [{
        "name": "kani-cbmc",
        "path": "/verif/check",
        "serves_properties": sorted(PROPS),
        "kind_free_text": "Kani 0.68 proof harnesses (harness/hv, harness/hp, harness/hm: path dependencies on /repo) "
                          "decided by CBMC 6.11 + CaDiCaL; python driver ./check; native replay binaries built from the same "
                          "harness sources",
    }],
    "checks": checks,
    "not_applicable": [{"property_id": k, "reason": v} for k, v in sorted(NOT_APPLICABLE.items()) if k not in PROPS],
    "notes": "Single technique family: solver-based bounded checking of the real code (Kani/CBMC). See DESIGN.md for the "
             "per-property claim, bounds and what is not covered. known_findings.txt lists recorded and fixed defects.",
}
json.dump(manifest, open(os.path.join(ROOT, "MANIFEST.json"), "w"), indent=1)
print("MANIFEST.json: %d checks, %d not applicable" % (len(checks), len(manifest["not_applicable"])))
