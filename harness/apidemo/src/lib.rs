//! Public-API demonstrations of the findings recorded in /verif/known_findings.txt.
//! Not a check: the checks are the Kani harnesses; these tests only show that a solver
//! counterexample found on a kernel is reachable through the library's public API.
//! `cargo test` here passes on a tree where the finding is fixed and fails where it is present.

use std::future::Future;
use std::pin::pin;
use std::task::{Context, Poll, Waker};

pub fn block_on<F: Future>(f: F) -> F::Output {
    let mut f = pin!(f);
    let w = Waker::noop();
    let mut cx = Context::from_waker(&w);
    loop {
        if let Poll::Ready(v) = f.as_mut().poll(&mut cx) {
            return v;
        }
    }
}

#[cfg(test)]
mod tests {
    use super::block_on;
    use async_graphql::*;
    use std::num::{NonZeroU64, NonZeroUsize};

    struct Q;
    #[Object]
    impl Q {
        async fn nzu64(&self, v: NonZeroU64) -> String {
            v.to_string()
        }
        async fn nzusize(&self, v: NonZeroUsize) -> String {
            v.to_string()
        }
        async fn u64v(&self, v: u64) -> String {
            v.to_string()
        }
    }

    /// C07: a literal above i64::MAX is a value of NonZeroU64 / NonZeroUsize (parse accepts it),
    /// yet strict validation refused it through `is_valid` (`is_i64`).
    #[test]
    fn c07_nonzero_u64_above_i64_max() {
        let schema = Schema::new(Q, EmptyMutation, EmptySubscription);
        let r = block_on(schema.execute("{ u64v(v: 18446744073709551615) }"));
        assert!(r.errors.is_empty(), "{:?}", r.errors);
        let r = block_on(schema.execute("{ nzu64(v: 18446744073709551615) }"));
        assert!(r.errors.is_empty(), "{:?}", r.errors);
        let r = block_on(schema.execute("{ nzusize(v: 18446744073709551615) }"));
        assert!(r.errors.is_empty(), "{:?}", r.errors);
    }

    /// C14: a lone carriage return ends a line (GraphQL spec, LineTerminator).
    #[test]
    fn c14_lone_cr_ends_a_line() {
        let doc = async_graphql::parser::parse_query("{\r  a\r\n b\n c}").unwrap();
        let op = doc.operations.iter().next().unwrap().1;
        let pos: Vec<(usize, usize)> = op
            .node
            .selection_set
            .node
            .items
            .iter()
            .map(|s| (s.pos.line, s.pos.column))
            .collect();
        assert_eq!(pos, vec![(2, 3), (3, 2), (4, 2)]);
    }
}
