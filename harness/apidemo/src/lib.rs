//! Public-API demonstrations of the findings recorded in /verif/known_findings.txt.
//! Not a check: the checks are the Kani harnesses; these tests only show that a solver
//! counterexample found on a kernel is reachable through the library's public API.
//! `cargo test` here passes on a tree where the finding is fixed and fails where it is present.

use std::future::Future;
use std::pin::pin;
use std::task::{Context, Poll, Waker};

pub fn block_on<F: Future>(f: F) -> F::Output {
    let mut f = pin!(f);
    let w = Waker::noop();
    let mut cx = Context::from_waker(&w);
    loop {
        if let Poll::Ready(v) = f.as_mut().poll(&mut cx) {
            return v;
        }
    }
}

#[cfg(test)]
mod tests {
    use super::block_on;
    use async_graphql::*;
    use std::num::{NonZeroU64, NonZeroUsize};

    struct Q;
    #[Object]
    impl Q {
        async fn nzu64(&self, v: NonZeroU64) -> String {
            v.to_string()
        }
        async fn nzusize(&self, v: NonZeroUsize) -> String {
            v.to_string()
        }
        async fn u64v(&self, v: u64) -> String {
            v.to_string()
        }
    }

    /// C07: a literal above i64::MAX is a value of NonZeroU64 / NonZeroUsize (parse accepts it),
    /// yet strict validation refused it through `is_valid` (`is_i64`).
    #[test]
    fn c07_nonzero_u64_above_i64_max() {
        let schema = Schema::new(Q, EmptyMutation, EmptySubscription);
        let r = block_on(schema.execute("{ u64v(v: 18446744073709551615) }"));
        assert!(r.errors.is_empty(), "{:?}", r.errors);
        let r = block_on(schema.execute("{ nzu64(v: 18446744073709551615) }"));
        assert!(r.errors.is_empty(), "{:?}", r.errors);
        let r = block_on(schema.execute("{ nzusize(v: 18446744073709551615) }"));
        assert!(r.errors.is_empty(), "{:?}", r.errors);
    }

    /// C14: a lone carriage return ends a line (GraphQL spec, LineTerminator).
    #[test]
    fn c14_lone_cr_ends_a_line() {
        let doc = async_graphql::parser::parse_query("{\r  a\r\n b\n c}").unwrap();
        let op = doc.operations.iter().next().unwrap().1;
        let pos: Vec<(usize, usize)> = op
            .node
            .selection_set
            .node
            .items
            .iter()
            .map(|s| (s.pos.line, s.pos.column))
            .collect();
        assert_eq!(pos, vec![(2, 3), (3, 2), (4, 2)]);
    }

    /// C15: control characters print as \uXXXX with hexadecimal digits and parse back.
    #[test]
    fn c15_control_characters_round_trip() {
        for c in ['\u{1b}', '\u{7f}', '\u{0}', '\u{9f}'] {
            let v = Value::String(c.to_string());
            let text = format!("{{ f(a: {}) }}", v);
            let doc = async_graphql::parser::parse_query(&text).unwrap();
            let op = doc.operations.iter().next().unwrap().1;
            let f = match &op.node.selection_set.node.items[0].node {
                async_graphql::parser::types::Selection::Field(f) => f,
                _ => unreachable!(),
            };
            let back = f.node.arguments[0].1.node.clone().into_const().unwrap();
            assert_eq!(back, v, "printed as {}", text);
        }
    }

    /// C33: an object field of type `String!` is a valid implementation of an interface
    /// field of type `String` (covariant), and `String` is NOT a valid implementation of `String!`.
    #[test]
    fn c33_interface_field_type_direction() {
        use async_graphql::dynamic::*;
        let build = |obj_ty: TypeRef, iface_ty: TypeRef| {
            let iface = Interface::new("I").field(InterfaceField::new("f", iface_ty));
            let obj = Object::new("O")
                .implement("I")
                .field(Field::new("f", obj_ty, |_| FieldFuture::new(async { Ok(None::<FieldValue>) })));
            let query = Object::new("Query").field(Field::new("o", TypeRef::named("O"), |_| {
                FieldFuture::new(async { Ok(None::<FieldValue>) })
            }));
            Schema::build("Query", None, None)
                .register(iface)
                .register(obj)
                .register(query)
                .finish()
        };
        assert!(
            build(TypeRef::named_nn(TypeRef::STRING), TypeRef::named(TypeRef::STRING)).is_ok(),
            "String! must be accepted as an implementation of String"
        );
        assert!(
            build(TypeRef::named(TypeRef::STRING), TypeRef::named_nn(TypeRef::STRING)).is_err(),
            "String must be rejected as an implementation of String!"
        );
    }

    /// C12: a String variable carrying a forged upload marker is answered with an error, not a panic.
    #[test]
    fn c12_forged_upload_marker_is_an_error() {
        struct Q5;
        #[Object]
        impl Q5 {
            async fn x(&self) -> i32 {
                0
            }
        }
        struct M5;
        #[Object]
        impl M5 {
            async fn up(&self, file: Upload) -> i32 {
                *file as i32
            }
        }
        let schema = Schema::new(Q5, M5, EmptySubscription);
        let req = Request::new("mutation($f: Upload!) { up(file: $f) }")
            .variables(Variables::from_json(serde_json::json!({"f": "#__graphql_file__:x"})));
        let r = block_on(schema.execute(req));
        assert!(!r.errors.is_empty(), "a forged marker must be rejected with an error");
    }

    /// C17: a deprecation reason containing a double quote is exported as valid SDL.
    #[test]
    fn c17_deprecation_reason_with_quote_exports_valid_sdl() {
        struct Q6;
        #[Object]
        impl Q6 {
            #[graphql(deprecation = "use \"y\" instead")]
            async fn x(&self) -> i32 {
                0
            }
        }
        let schema = Schema::new(Q6, EmptyMutation, EmptySubscription);
        let sdl = schema.sdl();
        let doc = async_graphql::parser::parse_schema(&sdl);
        assert!(doc.is_ok(), "exported SDL does not parse: {:?}\n{}", doc.err(), sdl);
    }

    /// C06: null for a non-null list argument is an error, not the list [null].
    #[test]
    fn c06_null_is_not_coerced_to_a_list_of_null() {
        assert!(<Vec<Option<i32>> as InputType>::parse(Some(Value::Null)).is_err());
        assert!(<Vec<Option<i32>> as InputType>::parse(None).is_err());
    }

    /// C06: the same rule for the boxed-slice list containers (src/types/external/list/slice.rs):
    /// `query($v: [Int]!) { count(items: $v) }` without a value for v must fail, not call the
    /// resolver with the one-element list [null].
    #[test]
    fn c06_null_is_not_coerced_to_a_boxed_slice_of_null() {
        assert!(<Box<[Option<i32>]> as InputType>::parse(Some(Value::Null)).is_err());
        assert!(<Box<[Option<i32>]> as InputType>::parse(None).is_err());
        assert!(<std::sync::Arc<[Option<i32>]> as InputType>::parse(Some(Value::Null)).is_err());
        assert!(<std::sync::Arc<[Option<i32>]> as InputType>::parse(None).is_err());
        struct Q7;
        #[Object]
        impl Q7 {
            async fn count(&self, items: Box<[Option<i32>]>) -> usize {
                items.len()
            }
        }
        let schema = Schema::new(Q7, EmptyMutation, EmptySubscription);
        let r = block_on(schema.execute("query($v: [Int]!) { count(items: $v) }"));
        assert!(!r.errors.is_empty(), "resolver ran with [null] for an omitted [Int]! variable: {:?}", r.data);
    }

    // ---- known (unfixed) findings: these FAIL on the unchanged tree by design; run with --ignored.

    /// C01 (known finding): a non-finite float returned from a `Float!` field must not put null
    /// into the non-null position silently.
    #[test]
    #[ignore = "known finding C01 non-finite-float-serializes-to-null"]
    fn known_c01_non_finite_float_in_non_null_position() {
        struct Q2;
        #[Object]
        impl Q2 {
            async fn x(&self) -> f64 {
                f64::NAN
            }
        }
        let schema = Schema::new(Q2, EmptyMutation, EmptySubscription);
        let r = block_on(schema.execute("{ x }"));
        let null_in_non_null = r.errors.is_empty() && r.data == value!({ "x": null });
        assert!(!null_in_non_null, "Float! field holds null and no error was reported: {:?}", r.data);
    }

    /// C08 (known findings): validators compare after a lossy `as` conversion.
    #[test]
    #[ignore = "known findings C08"]
    fn known_c08_lossy_validator_conversions() {
        use async_graphql::validators::{maximum, minimum};
        assert!(maximum(&10.5f64, 10i64).is_err(), "10.5 <= 10 accepted (float truncated to i64)");
        assert!(maximum(&(u64::MAX), 10i64).is_err(), "u64::MAX <= 10 accepted (wraps negative)");
        assert!(minimum(&((1u64 << 53) + 1), ((1u64 << 53) + 2) as f64).is_err(), "2^53+1 >= 2^53+2 accepted (rounded to f64)");
    }

    /// C09 (known finding): a nullable variable used where a non-null argument is expected is
    /// invalid (VariablesInAllowedPosition) and must be rejected by strict validation.
    #[test]
    #[ignore = "known finding C09 input-value-callbacks-not-forwarded"]
    fn known_c09_variable_in_incompatible_position() {
        struct Q3;
        #[Object]
        impl Q3 {
            async fn f(&self, a: i32) -> i32 {
                a
            }
        }
        let schema = Schema::new(Q3, EmptyMutation, EmptySubscription);
        let req = Request::new("query($v: Int) { f(a: $v) }").variables(Variables::from_json(serde_json::json!({"v": 1})));
        let r = block_on(schema.execute(req));
        assert!(!r.errors.is_empty(), "document with `$v: Int` in an `Int!` position was accepted: {:?}", r.data);
    }

    /// C06: an argument bound to a variable that the request omits (and that has no default of
    /// its own) behaves as an omitted argument: the ARGUMENT's default applies.
    #[test]
    fn c06_omitted_variable_uses_argument_default() {
        struct Q4;
        #[Object]
        impl Q4 {
            async fn f(&self, #[graphql(default = 7)] a: i32) -> i32 {
                a
            }
        }
        let schema = Schema::new(Q4, EmptyMutation, EmptySubscription);
        let r = block_on(schema.execute("query($v: Int) { f(a: $v) }"));
        assert!(r.errors.is_empty(), "{:?}", r.errors);
        assert_eq!(r.data, value!({ "f": 7 }));
    }
}
