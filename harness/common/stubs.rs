//! Stubs shared by the harness crates. Each use is listed in the evidence of the harness.

/// `alloc::fmt::format` → empty string: error *messages* are not the subject of any harness
/// that uses this stub.
pub fn fmt_stub(_: std::fmt::Arguments<'_>) -> String {
    String::new()
}

/// `RandomState::new` → fixed seed (avoids the `getrandom` syscall; map behaviour is
/// seed-independent by contract).
pub fn rs_new() -> std::hash::RandomState {
    unsafe { std::mem::transmute([0u64; 2]) }
}

/// `core::str::count::do_count_chars` is the word-at-a-time path of `str::chars().count()` for
/// strings of >= 32 bytes. Harnesses whose strings are shorter stub it with a function that
/// fails if reached (so the stub cannot hide behaviour: reaching it is reported as a failure).
pub fn do_count_chars_unreachable(_s: &str) -> usize {
    panic!("do_count_chars reached: string of 32 bytes or more in a short-string harness")
}

/// `core::str::slice_error_fail` builds the panic message of an out-of-range / non-boundary
/// string slice (truncating the string at a char boundary, several loops). The stub panics
/// right away: same control flow (a panic, reported by Kani as a failure), no message.
pub fn slice_error_fail_stub(_s: &str, _begin: usize, _end: usize) -> ! {
    panic!("string slice out of range or not on a char boundary")
}
