//! Stubs shared by the harness crates. Each use is listed in the evidence of the harness.

/// `alloc::fmt::format` → empty string: error *messages* are not the subject of any harness
/// that uses this stub.
pub fn fmt_stub(_: std::fmt::Arguments<'_>) -> String {
    String::new()
}

/// `RandomState::new` → fixed seed (avoids the `getrandom` syscall; map behaviour is
/// seed-independent by contract).
pub fn rs_new() -> std::hash::RandomState {
    unsafe { std::mem::transmute([0u64; 2]) }
}
