//! Source of harness inputs: `kani::any()` under Kani, a cursor over the byte vectors of a
//! CBMC counterexample (as printed by Kani's concrete playback) in the native replay.
//! Every method draws exactly one primitive `kani::any::<T>()`, so the n-th vector of a
//! counterexample is the n-th draw of the native run.

pub trait Src {
    fn u8(&mut self) -> u8;
    fn u16(&mut self) -> u16;
    fn u32(&mut self) -> u32;
    fn u64(&mut self) -> u64;
    fn u128(&mut self) -> u128;
    fn usize(&mut self) -> usize;
    fn i8(&mut self) -> i8;
    fn i16(&mut self) -> i16;
    fn i32(&mut self) -> i32;
    fn i64(&mut self) -> i64;
    fn i128(&mut self) -> i128;
    fn isize(&mut self) -> isize;
    fn bool(&mut self) -> bool;
    fn f32(&mut self) -> f32;
    fn f64(&mut self) -> f64;
    /// `kani::assume` under Kani; natively a counterexample that violates an assumption
    /// is an encoding error and aborts the replay with exit status 3.
    fn assume(&mut self, cond: bool);
    /// Role key of a violation about to be asserted: printed as `KEY=<k>` by the native replay
    /// (matched against known_findings.txt by the driver); a no-op under Kani.
    fn key(&mut self, _k: &str) {}
    /// An index below `n` (one `usize` draw + assumption).
    fn below(&mut self, n: usize) -> usize {
        let v = self.usize();
        self.assume(v < n);
        v
    }
    /// A Unicode scalar value (one `u32` draw + assumption).
    fn char(&mut self) -> char {
        let v = self.u32();
        self.assume(v < 0xD800 || (v > 0xDFFF && v <= 0x10FFFF));
        match char::from_u32(v) {
            Some(c) => c,
            None => 'a',
        }
    }
}

#[cfg(kani)]
pub struct K;

#[cfg(kani)]
macro_rules! kany {
    ($($n:ident: $t:ty),*) => { $(fn $n(&mut self) -> $t { kani::any() })* };
}

#[cfg(kani)]
impl Src for K {
    kany!(u8: u8, u16: u16, u32: u32, u64: u64, u128: u128, usize: usize, i8: i8, i16: i16,
          i32: i32, i64: i64, i128: i128, isize: isize, bool: bool, f32: f32, f64: f64);
    fn assume(&mut self, cond: bool) {
        kani::assume(cond)
    }
}

/// Native replay source.
pub struct ByteSrc {
    pub vals: Vec<Vec<u8>>,
    pub next: usize,
}

macro_rules! bget {
    ($($n:ident: $t:ty),*) => { $(fn $n(&mut self) -> $t {
        let mut buf = [0u8; std::mem::size_of::<$t>()];
        let v = self.take();
        for (i, b) in v.iter().enumerate() { if i < buf.len() { buf[i] = *b; } }
        <$t>::from_le_bytes(buf)
    })* };
}

impl ByteSrc {
    pub fn new(vals: Vec<Vec<u8>>) -> Self {
        ByteSrc { vals, next: 0 }
    }
    fn take(&mut self) -> Vec<u8> {
        let v = self.vals.get(self.next).cloned().unwrap_or_default();
        self.next += 1;
        v
    }
}

impl Src for ByteSrc {
    bget!(u8: u8, u16: u16, u32: u32, u64: u64, u128: u128, usize: usize, i8: i8, i16: i16,
          i32: i32, i64: i64, i128: i128, isize: isize, f32: f32, f64: f64);
    fn bool(&mut self) -> bool {
        self.take().first().copied().unwrap_or(0) != 0
    }
    fn key(&mut self, k: &str) {
        println!("KEY={}", k);
    }
    fn assume(&mut self, cond: bool) {
        if !cond {
            eprintln!("REPLAY-ASSUMPTION-VIOLATED");
            std::process::exit(3);
        }
    }
}

/// Vacuity witness: `kani::cover!` under Kani (every cover of a harness must come back
/// SATISFIED or the driver reports the harness as broken); natively a no-op.
#[macro_export]
macro_rules! cover {
    ($cond:expr, $label:literal) => {{
        #[cfg(kani)]
        kani::cover!($cond, $label);
        #[cfg(not(kani))]
        let _ = $cond;
    }};
}

/// Entry of the native replay table.
pub type NativeFn = fn(&mut ByteSrc);

/// Declares Kani proof harnesses and, natively, the replay table of a module.
/// `name [attrs...] => body_fn;` – `body_fn` is `fn<S: Src>(&mut S)`.
#[macro_export]
macro_rules! harnesses {
    ($( $(#[$a:meta])* $name:ident => $body:expr; )*) => {
        $(
            #[cfg(kani)]
            #[kani::proof]
            $(#[$a])*
            pub fn $name() {
                let f: fn(&mut $crate::vsrc::K) = $body;
                f(&mut $crate::vsrc::K)
            }
        )*
        pub fn table() -> Vec<(&'static str, $crate::vsrc::NativeFn)> {
            vec![ $( (stringify!($name), { let f: $crate::vsrc::NativeFn = $body; f }) ),* ]
        }
    };
}

/// Native replay driver: `replay <harness> <file-with-one-line-of-comma-separated-bytes-per-draw>`.
/// Exit 0: harness ran to completion (no violation reproduced); 101: panic (violation
/// reproduced); 3: assumption violated; 4: unknown harness.
pub fn replay_main(tables: Vec<(&'static str, NativeFn)>) {
    let args: Vec<String> = std::env::args().collect();
    if args.len() == 2 && args[1] == "--list" {
        for (n, _) in &tables {
            println!("{}", n);
        }
        return;
    }
    if args.len() < 3 {
        eprintln!("usage: replay <harness> <values-file>");
        std::process::exit(4);
    }
    let text = std::fs::read_to_string(&args[2]).unwrap_or_default();
    let mut vals = Vec::new();
    for line in text.lines() {
        let line = line.trim();
        if line.starts_with('#') {
            continue;
        }
        let v: Vec<u8> = line
            .split(',')
            .filter_map(|t| t.trim().parse::<u8>().ok())
            .collect();
        vals.push(v);
    }
    for (n, f) in &tables {
        if *n == args[1] {
            let mut s = ByteSrc::new(vals);
            f(&mut s);
            println!("REPLAY-COMPLETED draws={}", s.next);
            return;
        }
    }
    eprintln!("unknown harness {}", args[1]);
    std::process::exit(4);
}
