//! Small builders for executable-document syntax trees (public parser types).
use async_graphql::parser::types::*;
use async_graphql::{Name, Pos, Positioned};
use async_graphql_value::Value;

pub fn p<T>(t: T) -> Positioned<T> {
    Positioned::new(t, Pos::default())
}

pub fn sset(items: Vec<Positioned<Selection>>) -> Positioned<SelectionSet> {
    p(SelectionSet { items })
}

pub fn field(name: &str, alias: Option<&str>, directives: Vec<Positioned<Directive>>, items: Vec<Positioned<Selection>>) -> Positioned<Selection> {
    p(Selection::Field(p(Field {
        alias: alias.map(|a| p(Name::new(a))),
        name: p(Name::new(name)),
        arguments: Vec::new(),
        directives,
        selection_set: sset(items),
    })))
}

pub fn inline(items: Vec<Positioned<Selection>>) -> Positioned<Selection> {
    p(Selection::InlineFragment(p(InlineFragment {
        type_condition: None,
        directives: Vec::new(),
        selection_set: sset(items),
    })))
}

pub fn spread(name: &str) -> Positioned<Selection> {
    p(Selection::FragmentSpread(p(FragmentSpread {
        fragment_name: p(Name::new(name)),
        directives: Vec::new(),
    })))
}

pub fn directive(name: &str) -> Positioned<Directive> {
    p(Directive { name: p(Name::new(name)), arguments: Vec::new() })
}

pub fn directive_if(name: &str, v: Value) -> Positioned<Directive> {
    p(Directive { name: p(Name::new(name)), arguments: vec![(p(Name::new("if")), p(v))] })
}

pub fn query_doc(items: Vec<Positioned<Selection>>) -> ExecutableDocument {
    ExecutableDocument {
        operations: DocumentOperations::Single(p(OperationDefinition {
            ty: OperationType::Query,
            variable_definitions: Vec::new(),
            directives: Vec::new(),
            selection_set: sset(items),
        })),
        fragments: Default::default(),
    }
}

pub fn fragment_def(items: Vec<Positioned<Selection>>) -> Positioned<FragmentDefinition> {
    p(FragmentDefinition {
        type_condition: p(TypeCondition { on: p(Name::new("T")) }),
        directives: Vec::new(),
        selection_set: sset(items),
    })
}
