fn main() {
    #[cfg(not(kani))]
    hm::vsrc::replay_main(hm::tables());
}
