//! C01 — leaf values are serialized according to their declared type (leaf serialization only).
//! Real code: `<T as ScalarType>::to_value` for the built-in scalars: the value a resolver's
//! leaf result puts into the response. A leaf of GraphQL type Int/Float/Boolean/String must
//! serialize to that kind – in particular never to null, the only way a leaf can put null
//! into a non-null position.
use std::mem::ManuallyDrop;

use async_graphql::{ScalarType, Value};

use crate::c07::IntSpec;
use crate::vsrc::Src;

/// Every integer scalar value serializes to the integral Number equal to it.
pub fn leaf_int<T: IntSpec, S: Src>(s: &mut S) {
    let v = T::draw(s);
    cover!(v.to_i128() < 0 || T::MIN == 0, "negative (signed types)");
    let val = ManuallyDrop::new(v.to_value());
    match &*val {
        Value::Number(n) => {
            let m = if let Some(i) = n.as_i64() { Some(i as i128) } else { n.as_u64().map(|u| u as i128) };
            assert!(m == Some(v.to_i128()), "Int leaf serialized to a different number");
            assert!(!n.is_f64(), "Int leaf serialized to a float");
        }
        _ => assert!(false, "Int leaf serialized to a non-number"),
    }
}

/// Float leaves: every finite value serializes to the Number equal to it. A non-finite value
/// has no GraphQL representation; the property requires that it does not silently become null.
pub fn leaf_f64<S: Src>(s: &mut S) {
    let v = s.f64();
    cover!(v.is_finite(), "finite");
    cover!(!v.is_finite(), "non-finite");
    let val = ManuallyDrop::new(v.to_value());
    match &*val {
        Value::Number(n) => assert!(n.as_f64().map(|x| x.to_bits()) == Some(v.to_bits()), "Float leaf serialized to a different number"),
        _ => {
            s.key("non-finite-float-serializes-to-null");
            assert!(false, "Float leaf serialized to a non-number (null in a possibly non-null position)");
        }
    }
}
/// The finite part, decided separately (complement of the recorded finding).
pub fn leaf_f64_finite<S: Src>(s: &mut S) {
    let v = s.f64();
    s.assume(v.is_finite());
    cover!(v < 0.0, "negative");
    let val = ManuallyDrop::new(v.to_value());
    match &*val {
        Value::Number(n) => assert!(n.as_f64().map(|x| x.to_bits()) == Some(v.to_bits()), "Float leaf serialized to a different number"),
        _ => assert!(false, "finite Float leaf serialized to a non-number"),
    }
}
pub fn leaf_f32<S: Src>(s: &mut S) {
    let v = s.f32();
    cover!(v.is_finite(), "finite");
    cover!(!v.is_finite(), "non-finite");
    let val = ManuallyDrop::new(v.to_value());
    match &*val {
        Value::Number(n) => assert!(n.as_f64() == Some(v as f64), "Float leaf serialized to a different number"),
        _ => {
            s.key("non-finite-float-serializes-to-null");
            assert!(false, "Float leaf serialized to a non-number (null in a possibly non-null position)");
        }
    }
}
pub fn leaf_f32_finite<S: Src>(s: &mut S) {
    let v = s.f32();
    s.assume(v.is_finite());
    cover!(v < 0.0, "negative");
    let val = ManuallyDrop::new(v.to_value());
    match &*val {
        Value::Number(n) => assert!(n.as_f64() == Some(v as f64), "Float leaf serialized to a different number"),
        _ => assert!(false, "finite Float leaf serialized to a non-number"),
    }
}

pub fn leaf_bool_char<S: Src>(s: &mut S) {
    let b = s.bool();
    cover!(b, "true");
    let val = ManuallyDrop::new(b.to_value());
    assert!(matches!(&*val, Value::Boolean(x) if *x == b), "Boolean leaf");
    let c = s.char();
    cover!(c.len_utf8() == 3, "3-byte scalar");
    let val = ManuallyDrop::new(c.to_value());
    match &*val {
        Value::String(st) => assert!(st.len() == c.len_utf8(), "Char leaf is a one-character String"),
        _ => assert!(false, "Char leaf serialized to a non-string"),
    }
}

/// Response-key merging (spec: fields with the same response key are merged): the real
/// `create_value_object` (src/resolver_utils/container.rs) on two entries.
/// Distinct keys: both kept, in order.
pub fn merge_distinct<S: Src>(s: &mut S) {
    use async_graphql::{Name, Number};
    let x = s.i32();
    let y = s.i32();
    cover!(x != y, "distinct values");
    let v = ManuallyDrop::new(async_graphql::verif_hooks::create_value_object(vec![
        (Name::new("a"), Value::Number(Number::from(x as i64))),
        (Name::new("b"), Value::Number(Number::from(y as i64))),
    ]));
    match &*v {
        Value::Object(m) => {
            assert!(m.len() == 2, "two distinct response keys");
            let a = m.get_index(0);
            let b = m.get_index(1);
            assert!(matches!(a, Some((k, Value::Number(n))) if k.as_str() == "a" && n.as_i64() == Some(x as i64)), "first key");
            assert!(matches!(b, Some((k, Value::Number(n))) if k.as_str() == "b" && n.as_i64() == Some(y as i64)), "second key");
        }
        _ => assert!(false, "an object is produced"),
    }
}

macro_rules! leaf_ints {
    ($($n:ident => $t:ty;)*) => {
        harnesses! {
            $( #[kani::unwind(3)] $n => leaf_int::<$t, _>; )*
            #[kani::unwind(3)] c01_leaf_f64 => leaf_f64;
            #[kani::unwind(3)] c01_leaf_f64_finite => leaf_f64_finite;
            #[kani::unwind(3)] c01_leaf_f32 => leaf_f32;
            #[kani::unwind(3)] c01_leaf_f32_finite => leaf_f32_finite;
            #[kani::unwind(6)] c01_leaf_bool_char => leaf_bool_char;
            #[kani::unwind(6)] #[kani::stub(std::hash::RandomState::new, crate::stubs::rs_new)] c01_merge_distinct => merge_distinct;
        }
    };
}
leaf_ints! {
    c01_leaf_i8 => i8; c01_leaf_i16 => i16; c01_leaf_i32 => i32; c01_leaf_i64 => i64; c01_leaf_isize => isize;
    c01_leaf_u8 => u8; c01_leaf_u16 => u16; c01_leaf_u32 => u32; c01_leaf_u64 => u64; c01_leaf_usize => usize;
    c01_leaf_nzi8 => std::num::NonZeroI8; c01_leaf_nzi32 => std::num::NonZeroI32; c01_leaf_nzi64 => std::num::NonZeroI64;
    c01_leaf_nzu8 => std::num::NonZeroU8; c01_leaf_nzu32 => std::num::NonZeroU32; c01_leaf_nzu64 => std::num::NonZeroU64;
}
