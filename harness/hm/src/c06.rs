//! C06 — resolvers receive exactly the spec-coerced argument values: the coercion kernels
//! `InputType::parse` of the wrapper types (src/types/external/optional.rs,
//! src/types/external/list/vec.rs, src/types/maybe_undefined.rs) over `i32`.
//! One harness per (wrapper, input shape) – the value's kind is concrete, its scalars symbolic.
use async_graphql::{InputType, MaybeUndefined, Number, Value};

use crate::vsrc::Src;

fn in_i32(n: i64) -> bool {
    n >= i32::MIN as i64 && n <= i32::MAX as i64
}
fn num(n: i64) -> Value {
    Value::Number(Number::from(n))
}

// ---- Option<i32>  (GraphQL: Int)
pub fn opt_absent<S: Src>(s: &mut S) {
    let n = s.u8();
    cover!(n > 0, "reached");
    let r = <Option<i32> as InputType>::parse(None);
    assert!(matches!(&r, Ok(None)), "absent Int coerces to null");
    std::mem::forget(r);
}
pub fn opt_null<S: Src>(s: &mut S) {
    let n = s.u8();
    cover!(n > 0, "reached");
    let r = <Option<i32> as InputType>::parse(Some(Value::Null));
    assert!(matches!(&r, Ok(None)), "null Int coerces to null");
    std::mem::forget(r);
}
pub fn opt_number<S: Src>(s: &mut S) {
    let n = s.i64();
    cover!(in_i32(n), "in range");
    cover!(!in_i32(n), "out of range");
    let r = <Option<i32> as InputType>::parse(Some(num(n)));
    match &r {
        Ok(Some(v)) => assert!(in_i32(n) && *v as i64 == n, "coerced to a different value"),
        Ok(None) => assert!(false, "a number coerced to null"),
        Err(_) => assert!(!in_i32(n), "an Int in range was rejected"),
    }
    std::mem::forget(r);
}
pub fn opt_wrong_kind<S: Src>(s: &mut S) {
    let b = s.bool();
    cover!(b, "true");
    let r = <Option<i32> as InputType>::parse(Some(Value::Boolean(b)));
    assert!(r.is_err(), "a Boolean was accepted as Int");
    std::mem::forget(r);
    let r = <Option<i32> as InputType>::parse(Some(Value::String(String::new())));
    assert!(r.is_err(), "a String was accepted as Int");
    std::mem::forget(r);
}

// ---- MaybeUndefined<i32>  (absent and null are distinguished)
pub fn mu_absent<S: Src>(s: &mut S) {
    let n = s.u8();
    cover!(n > 0, "reached");
    let r = <MaybeUndefined<i32> as InputType>::parse(None);
    assert!(matches!(&r, Ok(MaybeUndefined::Undefined)), "omission is reported as undefined");
    std::mem::forget(r);
}
pub fn mu_null<S: Src>(s: &mut S) {
    let n = s.u8();
    cover!(n > 0, "reached");
    let r = <MaybeUndefined<i32> as InputType>::parse(Some(Value::Null));
    assert!(matches!(&r, Ok(MaybeUndefined::Null)), "explicit null is reported as null");
    std::mem::forget(r);
}
pub fn mu_number<S: Src>(s: &mut S) {
    let n = s.i64();
    cover!(in_i32(n), "in range");
    cover!(!in_i32(n), "out of range");
    let r = <MaybeUndefined<i32> as InputType>::parse(Some(num(n)));
    match &r {
        Ok(MaybeUndefined::Value(v)) => assert!(in_i32(n) && *v as i64 == n, "coerced to a different value"),
        Ok(_) => assert!(false, "a number coerced to null/undefined"),
        Err(_) => assert!(!in_i32(n), "an Int in range was rejected"),
    }
    std::mem::forget(r);
}

// ---- Vec<i32>  (GraphQL: [Int!]!)
/// A single (non-list) value is coerced to a list of one element.
pub fn vec_single<S: Src>(s: &mut S) {
    let n = s.i64();
    cover!(in_i32(n), "in range");
    cover!(!in_i32(n), "out of range");
    let r = <Vec<i32> as InputType>::parse(Some(num(n)));
    match &r {
        Ok(v) => assert!(in_i32(n) && v.len() == 1 && v[0] as i64 == n, "single value not coerced to [value]"),
        Err(_) => assert!(!in_i32(n), "an Int in range was rejected"),
    }
    std::mem::forget(r);
}
pub fn vec_list0<S: Src>(s: &mut S) {
    let _ = s.bool();
    let r = <Vec<i32> as InputType>::parse(Some(Value::List(Vec::new())));
    cover!(r.is_ok(), "empty list accepted");
    assert!(matches!(&r, Ok(v) if v.is_empty()), "[] coerces to []");
    std::mem::forget(r);
}
pub fn vec_list1<S: Src>(s: &mut S) {
    let n = s.i64();
    cover!(in_i32(n), "in range");
    cover!(!in_i32(n), "out of range");
    let r = <Vec<i32> as InputType>::parse(Some(Value::List(vec![num(n)])));
    match &r {
        Ok(v) => assert!(in_i32(n) && v.len() == 1 && v[0] as i64 == n, "[n] coerces to [n]"),
        Err(_) => assert!(!in_i32(n), "an Int in range was rejected"),
    }
    std::mem::forget(r);
}
/// A null item in `[Int!]` is an error.
pub fn vec_list_null_item<S: Src>(s: &mut S) {
    let n = s.i32();
    cover!(n < 0, "negative");
    let r = <Vec<i32> as InputType>::parse(Some(Value::List(vec![num(n as i64), Value::Null])));
    assert!(r.is_err(), "a null item was accepted in [Int!]");
    std::mem::forget(r);
}
/// null (or omission) for a non-null list is an error, not a list.
pub fn vec_absent<S: Src>(s: &mut S) {
    let n = s.u8();
    cover!(n > 0, "reached");
    let r = <Vec<i32> as InputType>::parse(None);
    assert!(r.is_err(), "omission accepted for [Int!]!");
    std::mem::forget(r);
}
pub fn vec_null<S: Src>(s: &mut S) {
    let n = s.u8();
    cover!(n > 0, "reached");
    let r = <Vec<i32> as InputType>::parse(Some(Value::Null));
    assert!(r.is_err(), "null accepted for [Int!]!");
    std::mem::forget(r);
}

// ---- Vec<Option<i32>>  (GraphQL: [Int]!)
pub fn vecopt_list2<S: Src>(s: &mut S) {
    let n = s.i32();
    cover!(n < 0, "negative");
    let r = <Vec<Option<i32>> as InputType>::parse(Some(Value::List(vec![num(n as i64), Value::Null])));
    match &r {
        Ok(v) => assert!(v.len() == 2 && v[0] == Some(n) && v[1].is_none(), "[n, null] coerces to [n, null]"),
        Err(_) => assert!(false, "[n, null] rejected for [Int]"),
    }
    std::mem::forget(r);
}
/// null (or omission) for the NON-NULL list type `[Int]!` is an error – it must not be
/// turned into the one-element list `[null]`.
pub fn vecopt_absent<S: Src>(s: &mut S) {
    let n = s.u8();
    cover!(n > 0, "reached");
    let r = <Vec<Option<i32>> as InputType>::parse(None);
    if r.is_ok() {
        s.key("null-for-non-null-list-becomes-list-of-null");
    }
    assert!(r.is_err(), "omission accepted for [Int]! (coerced to [null])");
    std::mem::forget(r);
}
pub fn vecopt_null<S: Src>(s: &mut S) {
    let n = s.u8();
    cover!(n > 0, "reached");
    let r = <Vec<Option<i32>> as InputType>::parse(Some(Value::Null));
    if r.is_ok() {
        s.key("null-for-non-null-list-becomes-list-of-null");
    }
    assert!(r.is_err(), "null accepted for [Int]! (coerced to [null])");
    std::mem::forget(r);
}

// ---- Option<Vec<i32>>  (GraphQL: [Int!])
pub fn optvec_absent<S: Src>(s: &mut S) {
    let n = s.u8();
    cover!(n > 0, "reached");
    let r = <Option<Vec<i32>> as InputType>::parse(None);
    assert!(matches!(&r, Ok(None)), "absent list coerces to null");
    std::mem::forget(r);
}
pub fn optvec_null<S: Src>(s: &mut S) {
    let n = s.u8();
    cover!(n > 0, "reached");
    let r = <Option<Vec<i32>> as InputType>::parse(Some(Value::Null));
    assert!(matches!(&r, Ok(None)), "null list coerces to null");
    std::mem::forget(r);
}
pub fn optvec_single<S: Src>(s: &mut S) {
    let n = s.i64();
    cover!(in_i32(n), "in range");
    cover!(!in_i32(n), "out of range");
    let r = <Option<Vec<i32>> as InputType>::parse(Some(num(n)));
    match &r {
        Ok(Some(v)) => assert!(in_i32(n) && v.len() == 1 && v[0] as i64 == n, "single value not coerced to [value]"),
        Ok(None) => assert!(false, "a number coerced to null"),
        Err(_) => assert!(!in_i32(n), "an Int in range was rejected"),
    }
    std::mem::forget(r);
}

macro_rules! c06_harnesses {
    ($($n:ident => $f:ident;)*) => {
        harnesses! {
            $( #[kani::unwind(5)] #[kani::stub(std::fmt::format, crate::stubs::fmt_stub)] $n => $f; )*
        }
    };
}
c06_harnesses! {
    c06_opt_absent => opt_absent;
    c06_opt_null => opt_null;
    c06_opt_number => opt_number;
    c06_opt_wrong_kind => opt_wrong_kind;
    c06_mu_absent => mu_absent;
    c06_mu_null => mu_null;
    c06_mu_number => mu_number;
    c06_vec_single => vec_single;
    c06_vec_list0 => vec_list0;
    c06_vec_list1 => vec_list1;
    c06_vec_list_null_item => vec_list_null_item;
    c06_vec_absent => vec_absent;
    c06_vec_null => vec_null;
    c06_vecopt_list2 => vecopt_list2;
    c06_vecopt_absent => vecopt_absent;
    c06_vecopt_null => vecopt_null;
    c06_optvec_absent => optvec_absent;
    c06_optvec_null => optvec_null;
    c06_optvec_single => optvec_single;
}
