//! C06 — resolvers receive exactly the spec-coerced argument values: the coercion kernels
//! `InputType::parse` of the wrapper types (src/types/external/optional.rs,
//! src/types/external/list/vec.rs, src/types/maybe_undefined.rs) over `i32`.
//! One harness per (wrapper, input shape) – the value's kind is concrete, its scalars symbolic.
use async_graphql::{InputType, MaybeUndefined, Number, Value};

use crate::vsrc::Src;

fn in_i32(n: i64) -> bool {
    n >= i32::MIN as i64 && n <= i32::MAX as i64
}
fn num(n: i64) -> Value {
    Value::Number(Number::from(n))
}

// ---- Option<i32>  (GraphQL: Int)
pub fn opt_absent<S: Src>(s: &mut S) {
    let n = s.u8();
    cover!(n > 0, "reached");
    let r = <Option<i32> as InputType>::parse(None);
    assert!(matches!(&r, Ok(None)), "absent Int coerces to null");
    std::mem::forget(r);
}
pub fn opt_null<S: Src>(s: &mut S) {
    let n = s.u8();
    cover!(n > 0, "reached");
    let r = <Option<i32> as InputType>::parse(Some(Value::Null));
    assert!(matches!(&r, Ok(None)), "null Int coerces to null");
    std::mem::forget(r);
}
pub fn opt_number<S: Src>(s: &mut S) {
    let n = s.i64();
    cover!(in_i32(n), "in range");
    cover!(!in_i32(n), "out of range");
    let r = <Option<i32> as InputType>::parse(Some(num(n)));
    match &r {
        Ok(Some(v)) => assert!(in_i32(n) && *v as i64 == n, "coerced to a different value"),
        Ok(None) => assert!(false, "a number coerced to null"),
        Err(_) => assert!(!in_i32(n), "an Int in range was rejected"),
    }
    std::mem::forget(r);
}
pub fn opt_wrong_kind<S: Src>(s: &mut S) {
    let b = s.bool();
    cover!(b, "true");
    let r = <Option<i32> as InputType>::parse(Some(Value::Boolean(b)));
    assert!(r.is_err(), "a Boolean was accepted as Int");
    std::mem::forget(r);
    let r = <Option<i32> as InputType>::parse(Some(Value::String(String::new())));
    assert!(r.is_err(), "a String was accepted as Int");
    std::mem::forget(r);
}

// ---- MaybeUndefined<i32>  (absent and null are distinguished)
pub fn mu_absent<S: Src>(s: &mut S) {
    let n = s.u8();
    cover!(n > 0, "reached");
    let r = <MaybeUndefined<i32> as InputType>::parse(None);
    assert!(matches!(&r, Ok(MaybeUndefined::Undefined)), "omission is reported as undefined");
    std::mem::forget(r);
}
pub fn mu_null<S: Src>(s: &mut S) {
    let n = s.u8();
    cover!(n > 0, "reached");
    let r = <MaybeUndefined<i32> as InputType>::parse(Some(Value::Null));
    assert!(matches!(&r, Ok(MaybeUndefined::Null)), "explicit null is reported as null");
    std::mem::forget(r);
}
pub fn mu_number<S: Src>(s: &mut S) {
    let n = s.i64();
    cover!(in_i32(n), "in range");
    cover!(!in_i32(n), "out of range");
    let r = <MaybeUndefined<i32> as InputType>::parse(Some(num(n)));
    match &r {
        Ok(MaybeUndefined::Value(v)) => assert!(in_i32(n) && *v as i64 == n, "coerced to a different value"),
        Ok(_) => assert!(false, "a number coerced to null/undefined"),
        Err(_) => assert!(!in_i32(n), "an Int in range was rejected"),
    }
    std::mem::forget(r);
}

// ---- Vec<i32>  (GraphQL: [Int!]!)
/// A single (non-list) value is coerced to a list of one element.
pub fn vec_single<S: Src>(s: &mut S) {
    let n = s.i64();
    cover!(in_i32(n), "in range");
    cover!(!in_i32(n), "out of range");
    let r = <Vec<i32> as InputType>::parse(Some(num(n)));
    match &r {
        Ok(v) => assert!(in_i32(n) && v.len() == 1 && v[0] as i64 == n, "single value not coerced to [value]"),
        Err(_) => assert!(!in_i32(n), "an Int in range was rejected"),
    }
    std::mem::forget(r);
}
pub fn vec_list0<S: Src>(s: &mut S) {
    let _ = s.bool();
    let r = <Vec<i32> as InputType>::parse(Some(Value::List(Vec::new())));
    cover!(r.is_ok(), "empty list accepted");
    assert!(matches!(&r, Ok(v) if v.is_empty()), "[] coerces to []");
    std::mem::forget(r);
}
pub fn vec_list1<S: Src>(s: &mut S) {
    let n = s.i64();
    cover!(in_i32(n), "in range");
    cover!(!in_i32(n), "out of range");
    let r = <Vec<i32> as InputType>::parse(Some(Value::List(vec![num(n)])));
    match &r {
        Ok(v) => assert!(in_i32(n) && v.len() == 1 && v[0] as i64 == n, "[n] coerces to [n]"),
        Err(_) => assert!(!in_i32(n), "an Int in range was rejected"),
    }
    std::mem::forget(r);
}
/// A null item in `[Int!]` is an error.
pub fn vec_list_null_item<S: Src>(s: &mut S) {
    let n = s.i32();
    cover!(n < 0, "negative");
    let r = <Vec<i32> as InputType>::parse(Some(Value::List(vec![num(n as i64), Value::Null])));
    assert!(r.is_err(), "a null item was accepted in [Int!]");
    std::mem::forget(r);
}
/// null (or omission) for a non-null list is an error, not a list.
pub fn vec_absent<S: Src>(s: &mut S) {
    let n = s.u8();
    cover!(n > 0, "reached");
    let r = <Vec<i32> as InputType>::parse(None);
    assert!(r.is_err(), "omission accepted for [Int!]!");
    std::mem::forget(r);
}
pub fn vec_null<S: Src>(s: &mut S) {
    let n = s.u8();
    cover!(n > 0, "reached");
    let r = <Vec<i32> as InputType>::parse(Some(Value::Null));
    assert!(r.is_err(), "null accepted for [Int!]!");
    std::mem::forget(r);
}

// ---- Vec<Option<i32>>  (GraphQL: [Int]!)
pub fn vecopt_list2<S: Src>(s: &mut S) {
    let n = s.i32();
    cover!(n < 0, "negative");
    let r = <Vec<Option<i32>> as InputType>::parse(Some(Value::List(vec![num(n as i64), Value::Null])));
    match &r {
        Ok(v) => assert!(v.len() == 2 && v[0] == Some(n) && v[1].is_none(), "[n, null] coerces to [n, null]"),
        Err(_) => assert!(false, "[n, null] rejected for [Int]"),
    }
    std::mem::forget(r);
}
/// null (or omission) for the NON-NULL list type `[Int]!` is an error – it must not be
/// turned into the one-element list `[null]`.
pub fn vecopt_absent<S: Src>(s: &mut S) {
    let n = s.u8();
    cover!(n > 0, "reached");
    let r = <Vec<Option<i32>> as InputType>::parse(None);
    if r.is_ok() {
        s.key("null-for-non-null-list-becomes-list-of-null");
    }
    assert!(r.is_err(), "omission accepted for [Int]! (coerced to [null])");
    std::mem::forget(r);
}
pub fn vecopt_null<S: Src>(s: &mut S) {
    let n = s.u8();
    cover!(n > 0, "reached");
    let r = <Vec<Option<i32>> as InputType>::parse(Some(Value::Null));
    if r.is_ok() {
        s.key("null-for-non-null-list-becomes-list-of-null");
    }
    assert!(r.is_err(), "null accepted for [Int]! (coerced to [null])");
    std::mem::forget(r);
}

// ---- Option<Vec<i32>>  (GraphQL: [Int!])
pub fn optvec_absent<S: Src>(s: &mut S) {
    let n = s.u8();
    cover!(n > 0, "reached");
    let r = <Option<Vec<i32>> as InputType>::parse(None);
    assert!(matches!(&r, Ok(None)), "absent list coerces to null");
    std::mem::forget(r);
}
pub fn optvec_null<S: Src>(s: &mut S) {
    let n = s.u8();
    cover!(n > 0, "reached");
    let r = <Option<Vec<i32>> as InputType>::parse(Some(Value::Null));
    assert!(matches!(&r, Ok(None)), "null list coerces to null");
    std::mem::forget(r);
}
pub fn optvec_single<S: Src>(s: &mut S) {
    let n = s.i64();
    cover!(in_i32(n), "in range");
    cover!(!in_i32(n), "out of range");
    let r = <Option<Vec<i32>> as InputType>::parse(Some(num(n)));
    match &r {
        Ok(Some(v)) => assert!(in_i32(n) && v.len() == 1 && v[0] as i64 == n, "single value not coerced to [value]"),
        Ok(None) => assert!(false, "a number coerced to null"),
        Err(_) => assert!(!in_i32(n), "an Int in range was rejected"),
    }
    std::mem::forget(r);
}


// ---- the other list containers (same GraphQL type [Int!]! / [Int]!): VecDeque, LinkedList,
// BTreeSet, HashSet share the coercion rules of Vec but each has its own `parse`.
pub trait SeqLike {
    fn n(&self) -> usize;
    fn first_i64(&self) -> Option<i64>;
}
impl SeqLike for std::collections::VecDeque<i32> {
    fn n(&self) -> usize { self.len() }
    fn first_i64(&self) -> Option<i64> { self.front().map(|v| *v as i64) }
}
impl SeqLike for std::collections::LinkedList<i32> {
    fn n(&self) -> usize { self.len() }
    fn first_i64(&self) -> Option<i64> { self.front().map(|v| *v as i64) }
}
impl SeqLike for std::collections::BTreeSet<i32> {
    fn n(&self) -> usize { self.len() }
    fn first_i64(&self) -> Option<i64> { self.first().map(|v| *v as i64) }
}
fn seq_absent_null<S: Src, T: InputType>(s: &mut S) {
    let n = s.u8();
    cover!(n > 0, "reached");
    let r = <T as InputType>::parse(None);
    if r.is_ok() {
        s.key("null-for-non-null-list-becomes-list-of-null");
    }
    assert!(r.is_err(), "omission accepted for a non-null list type");
    std::mem::forget(r);
    let r = <T as InputType>::parse(Some(Value::Null));
    if r.is_ok() {
        s.key("null-for-non-null-list-becomes-list-of-null");
    }
    assert!(r.is_err(), "null accepted for a non-null list type");
    std::mem::forget(r);
}
fn seq_single<S: Src, T: InputType + SeqLike>(s: &mut S) {
    let n = s.i64();
    cover!(in_i32(n), "in range");
    cover!(!in_i32(n), "out of range");
    let r = <T as InputType>::parse(Some(num(n)));
    match &r {
        Ok(v) => assert!(in_i32(n) && v.n() == 1 && v.first_i64() == Some(n), "single value not coerced to [value]"),
        Err(_) => assert!(!in_i32(n), "an Int in range was rejected"),
    }
    std::mem::forget(r);
}
fn seq_list0<S: Src, T: InputType + SeqLike>(s: &mut S) {
    let _ = s.bool();
    let r = <T as InputType>::parse(Some(Value::List(Vec::new())));
    cover!(r.is_ok(), "empty list accepted");
    assert!(matches!(&r, Ok(v) if v.n() == 0), "[] coerces to []");
    std::mem::forget(r);
}
fn seq_wrong_kind<S: Src, T: InputType>(s: &mut S) {
    let b = s.bool();
    cover!(b, "true");
    let r = <T as InputType>::parse(Some(Value::Boolean(b)));
    assert!(r.is_err(), "a Boolean was accepted as [Int!]! (single-value coercion must still check the item type)");
    std::mem::forget(r);
}
use std::collections::{BTreeSet, HashSet, LinkedList, VecDeque};
pub fn deque_absent_null<S: Src>(s: &mut S) { seq_absent_null::<S, VecDeque<i32>>(s) }
pub fn dequeopt_absent_null<S: Src>(s: &mut S) { seq_absent_null::<S, VecDeque<Option<i32>>>(s) }
pub fn deque_single<S: Src>(s: &mut S) { seq_single::<S, VecDeque<i32>>(s) }
pub fn deque_list0<S: Src>(s: &mut S) { seq_list0::<S, VecDeque<i32>>(s) }
pub fn deque_wrong_kind<S: Src>(s: &mut S) { seq_wrong_kind::<S, VecDeque<i32>>(s) }
pub fn llist_absent_null<S: Src>(s: &mut S) { seq_absent_null::<S, LinkedList<i32>>(s) }
pub fn llistopt_absent_null<S: Src>(s: &mut S) { seq_absent_null::<S, LinkedList<Option<i32>>>(s) }
pub fn llist_single<S: Src>(s: &mut S) { seq_single::<S, LinkedList<i32>>(s) }
pub fn llist_list0<S: Src>(s: &mut S) { seq_list0::<S, LinkedList<i32>>(s) }
pub fn llist_wrong_kind<S: Src>(s: &mut S) { seq_wrong_kind::<S, LinkedList<i32>>(s) }
pub fn bset_absent_null<S: Src>(s: &mut S) { seq_absent_null::<S, BTreeSet<i32>>(s) }
pub fn bsetopt_absent_null<S: Src>(s: &mut S) { seq_absent_null::<S, BTreeSet<Option<i32>>>(s) }
pub fn bset_single<S: Src>(s: &mut S) { seq_single::<S, BTreeSet<i32>>(s) }
pub fn bset_list0<S: Src>(s: &mut S) { seq_list0::<S, BTreeSet<i32>>(s) }
pub fn bset_wrong_kind<S: Src>(s: &mut S) { seq_wrong_kind::<S, BTreeSet<i32>>(s) }
pub fn hset_absent_null<S: Src>(s: &mut S) { seq_absent_null::<S, HashSet<i32>>(s) }
pub fn hsetopt_absent_null<S: Src>(s: &mut S) { seq_absent_null::<S, HashSet<Option<i32>>>(s) }
pub fn vec_wrong_kind<S: Src>(s: &mut S) { seq_wrong_kind::<S, Vec<i32>>(s) }


// ---- Box<[T]> / Arc<[T]> (src/types/external/list/slice.rs): the same GraphQL list types
impl SeqLike for Box<[i32]> {
    fn n(&self) -> usize { self.len() }
    fn first_i64(&self) -> Option<i64> { self.first().map(|v| *v as i64) }
}
impl SeqLike for std::sync::Arc<[i32]> {
    fn n(&self) -> usize { self.len() }
    fn first_i64(&self) -> Option<i64> { self.first().map(|v| *v as i64) }
}
pub fn boxslice_absent_null<S: Src>(s: &mut S) { seq_absent_null::<S, Box<[i32]>>(s) }
pub fn boxsliceopt_absent_null<S: Src>(s: &mut S) { seq_absent_null::<S, Box<[Option<i32>]>>(s) }
pub fn boxslice_single<S: Src>(s: &mut S) { seq_single::<S, Box<[i32]>>(s) }
pub fn boxslice_list0<S: Src>(s: &mut S) { seq_list0::<S, Box<[i32]>>(s) }
pub fn arcslice_absent_null<S: Src>(s: &mut S) { seq_absent_null::<S, std::sync::Arc<[i32]>>(s) }
pub fn arcsliceopt_absent_null<S: Src>(s: &mut S) { seq_absent_null::<S, std::sync::Arc<[Option<i32>]>>(s) }
pub fn arcslice_single<S: Src>(s: &mut S) { seq_single::<S, std::sync::Arc<[i32]>>(s) }

macro_rules! c06_harnesses {
    ($($n:ident => $f:ident;)*) => {
        harnesses! {
            $( #[kani::unwind(5)] #[kani::stub(std::fmt::format, crate::stubs::fmt_stub)] $n => $f; )*
        }
    };
}
c06_harnesses! {
    c06_opt_absent => opt_absent;
    c06_opt_null => opt_null;
    c06_opt_number => opt_number;
    c06_opt_wrong_kind => opt_wrong_kind;
    c06_mu_absent => mu_absent;
    c06_mu_null => mu_null;
    c06_mu_number => mu_number;
    c06_vec_single => vec_single;
    c06_vec_list0 => vec_list0;
    c06_vec_list1 => vec_list1;
    c06_vec_list_null_item => vec_list_null_item;
    c06_vec_absent => vec_absent;
    c06_vec_null => vec_null;
    c06_vecopt_list2 => vecopt_list2;
    c06_vecopt_absent => vecopt_absent;
    c06_vecopt_null => vecopt_null;
    c06_optvec_absent => optvec_absent;
    c06_optvec_null => optvec_null;
    c06_optvec_single => optvec_single;
    c06_vec_wrong_kind => vec_wrong_kind;
    c06_deque_absent_null => deque_absent_null;
    c06_dequeopt_absent_null => dequeopt_absent_null;
    c06_deque_single => deque_single;
    c06_deque_list0 => deque_list0;
    c06_deque_wrong_kind => deque_wrong_kind;
    c06_llist_absent_null => llist_absent_null;
    c06_llistopt_absent_null => llistopt_absent_null;
    c06_llist_single => llist_single;
    c06_llist_list0 => llist_list0;
    c06_llist_wrong_kind => llist_wrong_kind;
    c06_bset_absent_null => bset_absent_null;
    c06_bsetopt_absent_null => bsetopt_absent_null;
    c06_bset_single => bset_single;
    c06_bset_list0 => bset_list0;
    c06_bset_wrong_kind => bset_wrong_kind;
    c06_hset_absent_null => hset_absent_null;
    c06_hsetopt_absent_null => hsetopt_absent_null;
    c06_boxslice_absent_null => boxslice_absent_null;
    c06_boxsliceopt_absent_null => boxsliceopt_absent_null;
    c06_boxslice_single => boxslice_single;
    c06_boxslice_list0 => boxslice_list0;
    c06_arcslice_absent_null => arcslice_absent_null;
    c06_arcsliceopt_absent_null => arcsliceopt_absent_null;
    c06_arcslice_single => arcslice_single;
}
