//! C06 (continued) — the argument/variable plumbing: `ContextBase::param_value` →
//! `get_param_value` → `resolve_input_value_inner` → `var_value` (src/context.rs), i.e. what a
//! derive-generated resolver calls to obtain each argument, over a hand-built `Context`
//! (empty registry, no extensions; constructed through the verif-hooks constructors).
use std::mem::ManuallyDrop;

use async_graphql::parser::types::*;
use async_graphql::registry::Registry;
use async_graphql::verif_hooks::{query_env, schema_env};
use async_graphql::{Name, Number, Pos, Positioned, Variables};
use async_graphql_value::{ConstValue, Value};

use crate::ast::p;
use crate::vsrc::Src;

fn num(n: i32) -> Value {
    Value::Number(Number::from(n as i64))
}
fn cnum(n: i32) -> ConstValue {
    ConstValue::Number(Number::from(n as i64))
}

fn op(var_default: Option<i32>) -> Positioned<OperationDefinition> {
    p(OperationDefinition {
        ty: OperationType::Query,
        variable_definitions: vec![p(VariableDefinition {
            name: p(Name::new("v")),
            var_type: p(Type { base: BaseType::Named(Name::new("Int")), nullable: true }),
            directives: Vec::new(),
            default_value: var_default.map(|d| p(cnum(d))),
        })],
        directives: Vec::new(),
        selection_set: p(SelectionSet { items: Vec::new() }),
    })
}

fn field_with(arg: Option<Value>) -> Positioned<Field> {
    p(Field {
        alias: None,
        name: p(Name::new("f")),
        arguments: match arg {
            Some(v) => vec![(p(Name::new("a")), p(v))],
            None => Vec::new(),
        },
        directives: Vec::new(),
        selection_set: p(SelectionSet { items: Vec::new() }),
    })
}

fn seven() -> Option<i32> {
    Some(7)
}

/// Runs `param_value::<Option<i32>>("a", default)` for the field `f(a: <arg>)`.
fn run(arg: Option<Value>, vars: Variables, var_default: Option<i32>, arg_default: bool) -> Result<Option<i32>, ()> {
    let senv = ManuallyDrop::new(schema_env(Registry::default()));
    let qenv = ManuallyDrop::new(query_env(&senv, vars, op(var_default), Vec::new()));
    let field = ManuallyDrop::new(field_with(arg));
    let ctx = ManuallyDrop::new(qenv.create_context(&senv, None, &*field, None));
    let r = ctx.param_value::<Option<i32>>("a", if arg_default { Some(seven) } else { None });
    let out = match &r {
        Ok((_, v)) => Ok(*v),
        Err(_) => Err(()),
    };
    std::mem::forget(r);
    out
}

/// Argument given as a literal: the resolver receives exactly that Int (or an error if it is
/// out of range), whatever the argument default.
pub fn param_literal<S: Src>(s: &mut S) {
    let n = s.i32();
    let with_default = s.bool();
    cover!(with_default, "argument has a default");
    let r = run(Some(num(n)), Variables::default(), None, with_default);
    assert!(r == Ok(Some(n)), "literal argument value");
}

/// Argument omitted: the argument default if there is one, else null.
pub fn param_omitted<S: Src>(s: &mut S) {
    let with_default = s.bool();
    cover!(with_default, "argument has a default");
    cover!(!with_default, "no default");
    let r = run(None, Variables::default(), None, with_default);
    assert!(r == Ok(if with_default { Some(7) } else { None }), "omitted argument takes its default");
}

/// Argument bound to `$v`, variable supplied with the Int m.
pub fn param_var_supplied<S: Src>(s: &mut S) {
    let m = s.i32();
    let with_default = s.bool();
    cover!(m < 0, "negative");
    let mut vars = Variables::default();
    vars.insert(Name::new("v"), cnum(m));
    let r = run(Some(Value::Variable(Name::new("v"))), vars, None, with_default);
    assert!(r == Ok(Some(m)), "supplied variable value reaches the resolver");
}

/// `$v` supplied as explicit null: the resolver receives null (not a default).
pub fn param_var_null<S: Src>(s: &mut S) {
    let with_default = s.bool();
    let d = s.i32();
    cover!(with_default, "argument has a default");
    let mut vars = Variables::default();
    vars.insert(Name::new("v"), ConstValue::Null);
    let r = run(Some(Value::Variable(Name::new("v"))), vars, Some(d), with_default);
    assert!(r == Ok(None), "explicit null variable is passed as null");
}

/// `$v` omitted, the variable definition has the default d: the resolver receives d.
pub fn param_var_omitted_var_default<S: Src>(s: &mut S) {
    let d = s.i32();
    let with_default = s.bool();
    cover!(d < 0, "negative");
    let r = run(Some(Value::Variable(Name::new("v"))), Variables::default(), Some(d), with_default);
    assert!(r == Ok(Some(d)), "omitted variable takes the variable's default");
}

/// `$v` omitted, no variable default: the argument behaves as omitted - it takes the
/// ARGUMENT's default if it has one (spec: CoerceArgumentValues), else null.
pub fn param_var_omitted_no_var_default<S: Src>(s: &mut S) {
    let with_default = s.bool();
    cover!(with_default, "argument has a default");
    cover!(!with_default, "no default");
    let r = run(Some(Value::Variable(Name::new("v"))), Variables::default(), None, with_default);
    let want = Ok(if with_default { Some(7) } else { None });
    if r != want {
        s.key("omitted-variable-ignores-argument-default");
    }
    assert!(r == want, "omitted variable without default: argument default applies");
}

/// A list literal `[n1, $v, n3]` with `$v` omitted reaches the resolver as [n1, null, n3].
pub fn param_list_with_omitted_var<S: Src>(s: &mut S) {
    let n1 = s.i32();
    let n3 = s.i32();
    cover!(n1 != n3, "distinct items");
    let senv = ManuallyDrop::new(schema_env(Registry::default()));
    let qenv = ManuallyDrop::new(query_env(&senv, Variables::default(), op(None), Vec::new()));
    let field = ManuallyDrop::new(field_with(Some(Value::List(vec![num(n1), Value::Variable(Name::new("v")), num(n3)]))));
    let ctx = ManuallyDrop::new(qenv.create_context(&senv, None, &*field, None));
    let r = ctx.param_value::<Vec<Option<i32>>>("a", None);
    match &r {
        Ok((_, v)) => {
            assert!(v.len() == 3, "an omitted variable inside a list literal keeps its slot");
            assert!(v[0] == Some(n1) && v[1].is_none() && v[2] == Some(n3), "[n1, null, n3]");
        }
        Err(_) => assert!(false, "list literal with an omitted variable rejected"),
    }
    std::mem::forget(r);
}

macro_rules! hs {
    ($($n:ident => $f:ident;)*) => {
        harnesses! {
            $( #[kani::unwind(4)] #[kani::stub(std::fmt::format, crate::stubs::fmt_stub)] #[kani::stub(std::hash::RandomState::new, crate::stubs::rs_new)] $n => $f; )*
        }
    };
}
hs! {
    c06_param_literal => param_literal;
    c06_param_omitted => param_omitted;
    c06_param_var_supplied => param_var_supplied;
    c06_param_var_null => param_var_null;
    c06_param_var_omitted_var_default => param_var_omitted_var_default;
    c06_param_var_omitted_no_var_default => param_var_omitted_no_var_default;
    c06_param_list_with_omitted_var => param_list_with_omitted_var;
}
