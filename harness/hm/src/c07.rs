//! C07 — built-in scalar types accept exactly their domain and round-trip.
//! Real code: `<T as ScalarType>::{parse, is_valid, to_value}` in src/types/external/{integers,
//! non_zero_integers,floats,bool,char,string}.rs and src/types/id.rs.
use std::num::*;

use async_graphql::{Number, ScalarType, Value, ID};

use crate::vsrc::Src;

/// Every `serde_json::Number` constructible through its public API, together with the integer
/// it denotes (None for floats – a float literal is not an Int).
pub fn any_number<S: Src>(s: &mut S) -> (Number, Option<i128>) {
    let kind = s.u8();
    s.assume(kind < 3);
    if kind == 0 {
        let v = s.i64();
        (Number::from(v), Some(v as i128))
    } else if kind == 1 {
        let v = s.u64();
        (Number::from(v), Some(v as i128))
    } else {
        let f = s.f64();
        s.assume(f.is_finite());
        match Number::from_f64(f) {
            Some(n) => (n, None),
            None => {
                s.assume(false);
                (Number::from(0i64), None)
            }
        }
    }
}

pub trait IntSpec: ScalarType + Copy + PartialEq {
    const MIN: i128;
    const MAX: i128;
    const NONZERO: bool;
    fn to_i128(self) -> i128;
    fn draw<S: Src>(s: &mut S) -> Self;
}

macro_rules! int_spec {
    ($($t:ty, $draw:ident);*) => { $(
        impl IntSpec for $t {
            const MIN: i128 = <$t>::MIN as i128;
            const MAX: i128 = <$t>::MAX as i128;
            const NONZERO: bool = false;
            fn to_i128(self) -> i128 { self as i128 }
            fn draw<S: Src>(s: &mut S) -> Self { s.$draw() }
        }
    )* };
}
int_spec!(i8, i8; i16, i16; i32, i32; i64, i64; isize, isize; u8, u8; u16, u16; u32, u32; u64, u64; usize, usize);

macro_rules! nz_spec {
    ($($t:ty, $p:ty, $draw:ident);*) => { $(
        impl IntSpec for $t {
            const MIN: i128 = <$p>::MIN as i128;
            const MAX: i128 = <$p>::MAX as i128;
            const NONZERO: bool = true;
            fn to_i128(self) -> i128 { self.get() as i128 }
            fn draw<S: Src>(s: &mut S) -> Self {
                let v = s.$draw();
                s.assume(v != 0);
                match <$t>::new(v) { Some(n) => n, None => <$t>::MIN }
            }
        }
    )* };
}
nz_spec!(NonZeroI8, i8, i8; NonZeroI16, i16, i16; NonZeroI32, i32, i32; NonZeroI64, i64, i64;
         NonZeroIsize, isize, isize; NonZeroU8, u8, u8; NonZeroU16, u16, u16; NonZeroU32, u32, u32;
         NonZeroU64, u64, u64; NonZeroUsize, usize, usize);

fn in_domain<T: IntSpec>(m: Option<i128>) -> bool {
    match m {
        Some(m) => m >= T::MIN && m <= T::MAX && !(T::NONZERO && m == 0),
        None => false,
    }
}

/// parse accepts exactly the Numbers that denote a value of T, and returns that value.
pub fn int_accepts<T: IntSpec, S: Src>(s: &mut S) {
    let (n, math) = any_number(s);
    let expect = in_domain::<T>(math);
    cover!(expect, "a number in the domain");
    cover!(!expect && math.is_some(), "an integer outside the domain");
    cover!(math.is_none(), "a float");
    let r = T::parse(Value::Number(n));
    match &r {
        Ok(v) => {
            assert!(expect, "accepted a number that does not denote a value of the type");
            assert!(Some(v.to_i128()) == math, "accepted number coerced to a different value");
        }
        Err(_) => assert!(!expect, "rejected a number that denotes a value of the type"),
    }
    std::mem::forget(r);
}

/// A number the coercion accepts is never refused by the validity pre-check that strict
/// validation applies to literals (`is_valid`), i.e. the scalar as a whole accepts it.
pub fn int_valid_if_parses<T: IntSpec, S: Src>(s: &mut S) {
    let (n, math) = any_number(s);
    let expect = in_domain::<T>(math);
    cover!(expect, "a number in the domain");
    let v = Value::Number(n);
    let valid = T::is_valid(&v);
    // The registry holds ONE validity function per GraphQL type name; for `Int` it is always
    // i32's (registered first by Registry::add_system_types). Strict validation applies it to
    // arguments of every integer type.
    let registry_valid = <i32 as ScalarType>::is_valid(&v);
    if expect {
        assert!(valid, "is_valid refuses a number that parse accepts");
        assert!(registry_valid, "the Int validity check of the registry refuses a number that parse accepts");
    }
    std::mem::forget(v);
}

/// parse(to_value(v)) == v for every v.
pub fn int_roundtrip<T: IntSpec, S: Src>(s: &mut S) {
    let v = T::draw(s);
    cover!(v.to_i128() == T::MAX, "maximum");
    cover!(v.to_i128() == if T::NONZERO && T::MIN == 0 { 1 } else { T::MIN }, "minimum");
    let val = v.to_value();
    match &val {
        Value::Number(n) => {
            let as_math = if let Some(i) = n.as_i64() {
                Some(i as i128)
            } else {
                n.as_u64().map(|u| u as i128)
            };
            assert!(as_math == Some(v.to_i128()), "to_value is not the Number denoting v");
        }
        _ => assert!(false, "an integer must serialize to a Number"),
    }
    let r = T::parse(val);
    match &r {
        Ok(w) => assert!(*w == v, "round trip changed the value"),
        Err(_) => assert!(false, "round trip rejected"),
    }
    std::mem::forget(r);
}

/// Values of every other kind are rejected by the integer scalars.
pub fn int_other_kinds<T: IntSpec, S: Src>(s: &mut S) {
    let b = s.bool();
    let c = s.u8();
    s.assume(c < 0x80);
    cover!(b, "true");
    macro_rules! rejects {
        ($v:expr) => {{
            let r = T::parse($v);
            assert!(r.is_err(), "a non-number was accepted");
            std::mem::forget(r);
        }};
    }
    rejects!(Value::Null);
    rejects!(Value::Boolean(b));
    rejects!(Value::String(String::new()));
    let mut st = String::new();
    st.push(c as char);
    rejects!(Value::String(st));
    rejects!(Value::List(Vec::new()));
    rejects!(Value::Binary(Default::default()));
}

// ---------------------------------------------------------------- floats

pub fn f64_accepts<S: Src>(s: &mut S) {
    let (n, math) = any_number(s);
    cover!(math.is_none(), "float");
    cover!(math.is_some(), "integer");
    let expect: f64 = match n.as_f64() {
        Some(f) => f,
        None => {
            assert!(false, "every Number has an f64 reading");
            0.0
        }
    };
    let r = <f64 as ScalarType>::parse(Value::Number(n));
    match &r {
        Ok(v) => {
            assert!(v.to_bits() == expect.to_bits(), "Float coerced to a different value");
            if let Some(m) = math {
                // integers are valid Float input and denote themselves (up to f64 rounding)
                assert!(*v == m as f64, "integer coerced to a different Float");
            }
        }
        Err(_) => assert!(false, "Float rejected a number"),
    }
    std::mem::forget(r);
}

pub fn f32_accepts<S: Src>(s: &mut S) {
    let (n, math) = any_number(s);
    cover!(math.is_none(), "float");
    let r = <f32 as ScalarType>::parse(Value::Number(n));
    cover!(matches!(&r, Ok(v) if v.is_infinite()), "overflowing f32");
    match &r {
        Ok(v) => {
            if let Some(m) = math {
                assert!(*v == (m as f64) as f32, "integer coerced to a different Float");
            }
        }
        Err(_) => assert!(false, "Float rejected a number"),
    }
    std::mem::forget(r);
}

/// Every finite float round-trips bit-exactly; non-finite floats never panic.
pub fn f64_roundtrip<S: Src>(s: &mut S) {
    let v = s.f64();
    cover!(v.is_nan(), "NaN");
    cover!(v.is_finite() && v != 0.0, "finite non-zero");
    // the kind of the serialized value is re-built concretely (hygiene rule 4)
    let val = std::mem::ManuallyDrop::new(v.to_value());
    match &*val {
        Value::Number(n) => {
            assert!(v.is_finite(), "only finite floats serialize to a Number");
            let r = <f64 as ScalarType>::parse(Value::Number(n.clone()));
            match &r {
                Ok(w) => assert!(w.to_bits() == v.to_bits(), "round trip changed the value"),
                Err(_) => assert!(false, "round trip rejected"),
            }
            std::mem::forget(r);
        }
        Value::Null => assert!(!v.is_finite(), "finite float serializes to a Number"),
        _ => assert!(false, "a float serializes to a Number or null"),
    }
}

pub fn f32_roundtrip<S: Src>(s: &mut S) {
    let v = s.f32();
    cover!(v.is_finite() && v != 0.0, "finite non-zero");
    let val = std::mem::ManuallyDrop::new(v.to_value());
    match &*val {
        Value::Number(n) => {
            assert!(v.is_finite(), "only finite floats serialize to a Number");
            let r = <f32 as ScalarType>::parse(Value::Number(n.clone()));
            match &r {
                Ok(w) => assert!(w.to_bits() == v.to_bits(), "round trip changed the value"),
                Err(_) => assert!(false, "round trip rejected"),
            }
            std::mem::forget(r);
        }
        Value::Null => assert!(!v.is_finite(), "finite float serializes to a Number"),
        _ => assert!(false, "a float serializes to a Number or null"),
    }
}

pub fn float_other_kinds<S: Src>(s: &mut S) {
    let b = s.bool();
    cover!(b, "true");
    macro_rules! rejects {
        ($t:ty, $v:expr) => {{
            let r = <$t as ScalarType>::parse($v);
            assert!(r.is_err(), "a non-number was accepted");
            std::mem::forget(r);
        }};
    }
    rejects!(f64, Value::Null);
    rejects!(f64, Value::Boolean(b));
    rejects!(f64, Value::String(String::new()));
    rejects!(f64, Value::List(Vec::new()));
    rejects!(f32, Value::Null);
    rejects!(f32, Value::Boolean(b));
    rejects!(f32, Value::String(String::new()));
    rejects!(f32, Value::List(Vec::new()));
}

// ---------------------------------------------------------------- bool

pub fn bool_scalar<S: Src>(s: &mut S) {
    let b = s.bool();
    cover!(b, "true");
    cover!(!b, "false");
    let val = b.to_value();
    assert!(matches!(&val, Value::Boolean(x) if *x == b), "to_value is Boolean(b)");
    assert!(<bool as ScalarType>::is_valid(&val));
    let r = <bool as ScalarType>::parse(val);
    assert!(matches!(&r, Ok(x) if *x == b), "round trip");
    std::mem::forget(r);
    let (n, _) = any_number(s);
    let r = <bool as ScalarType>::parse(Value::Number(n));
    assert!(r.is_err(), "Boolean accepted a number");
    std::mem::forget(r);
    let r = <bool as ScalarType>::parse(Value::Null);
    assert!(r.is_err(), "Boolean accepted null");
    std::mem::forget(r);
    let r = <bool as ScalarType>::parse(Value::String(String::new()));
    assert!(r.is_err(), "Boolean accepted a string");
    std::mem::forget(r);
}

// ---------------------------------------------------------------- char

/// to_value → parse is the identity on every Unicode scalar value.
pub fn char_roundtrip<S: Src>(s: &mut S) {
    let c = s.char();
    cover!(c.len_utf8() == 4, "4-byte scalar");
    cover!(c.len_utf8() == 1, "ASCII");
    let val = c.to_value();
    match &val {
        Value::String(st) => assert!(st.len() == c.len_utf8(), "one character"),
        _ => assert!(false, "char serializes to a String"),
    }
    let r = <char as ScalarType>::parse(val);
    match &r {
        Ok(d) => assert!(*d == c, "round trip changed the value"),
        Err(_) => assert!(false, "round trip rejected"),
    }
    std::mem::forget(r);
}

/// Strings of 0, 1 or 2 characters (up to 3 bytes): accepted iff exactly one character.
pub fn char_accepts<S: Src>(s: &mut S) {
    let n = s.below(3);
    let c1 = s.char();
    let c2 = s.char();
    s.assume(if n == 2 { c1.len_utf8() + c2.len_utf8() <= 3 } else { c1.len_utf8() <= 3 });
    let mut st = String::new();
    if n >= 1 {
        st.push(c1);
    }
    if n >= 2 {
        st.push(c2);
    }
    cover!(n == 2, "two characters");
    cover!(n == 1 && c1.len_utf8() == 3, "one 3-byte character");
    cover!(n == 0, "empty");
    let r = <char as ScalarType>::parse(Value::String(st));
    match &r {
        Ok(d) => assert!(n == 1 && *d == c1, "accepted a string that is not exactly one character"),
        Err(_) => assert!(n != 1, "rejected a one-character string"),
    }
    std::mem::forget(r);
    let (num, _) = any_number(s);
    let r = <char as ScalarType>::parse(Value::Number(num));
    assert!(r.is_err(), "char accepted a number");
    std::mem::forget(r);
    let r = <char as ScalarType>::parse(Value::Null);
    assert!(r.is_err(), "char accepted null");
    std::mem::forget(r);
}

// ---------------------------------------------------------------- String / ID

/// String: identity on the payload (same bytes, same length) for every string of <= 3 bytes;
/// other kinds rejected.
pub fn string_scalar<S: Src>(s: &mut S) {
    let n = s.below(4);
    let b = [s.u8(), s.u8(), s.u8()];
    s.assume(b[0] < 0x80 && b[1] < 0x80 && b[2] < 0x80);
    let mut st = String::new();
    let mut i = 0;
    while i < 3 {
        if i < n {
            st.push(b[i] as char);
        }
        i += 1;
    }
    cover!(n == 3, "three bytes");
    let val = st.to_value();
    let r = <String as ScalarType>::parse(val);
    match &r {
        Ok(out) => {
            assert!(out.len() == n, "length preserved");
            let ob = out.as_bytes();
            let mut i = 0;
            while i < 3 {
                if i < n {
                    assert!(ob[i] == b[i], "bytes preserved");
                }
                i += 1;
            }
        }
        Err(_) => assert!(false, "String rejected a string"),
    }
    std::mem::forget(r);
    let (num, _) = any_number(s);
    let r = <String as ScalarType>::parse(Value::Number(num));
    assert!(r.is_err(), "String accepted a number");
    std::mem::forget(r);
    let r = <String as ScalarType>::parse(Value::Boolean(s.bool()));
    assert!(r.is_err(), "String accepted a boolean");
    std::mem::forget(r);
    let r = <String as ScalarType>::parse(Value::Null);
    assert!(r.is_err(), "String accepted null");
    std::mem::forget(r);
}

/// ID: strings are taken verbatim, serialized back as the same string; booleans/null/floats
/// are rejected; integers are accepted.
pub fn id_scalar<S: Src>(s: &mut S) {
    let n = s.below(3);
    let b = [s.u8(), s.u8()];
    s.assume(b[0] < 0x80 && b[1] < 0x80);
    let mut st = String::new();
    if n >= 1 {
        st.push(b[0] as char);
    }
    if n >= 2 {
        st.push(b[1] as char);
    }
    cover!(n == 2, "two bytes");
    let r = <ID as ScalarType>::parse(Value::String(st));
    match &r {
        Ok(id) => {
            assert!(id.0.len() == n, "length preserved");
            if n >= 1 {
                assert!(id.0.as_bytes()[0] == b[0]);
            }
            if n >= 2 {
                assert!(id.0.as_bytes()[1] == b[1]);
            }
            let back = id.to_value();
            match &back {
                Value::String(t) => assert!(t.len() == n, "ID serializes to the same string"),
                _ => assert!(false, "ID serializes to a String"),
            }
            std::mem::forget(back);
        }
        Err(_) => assert!(false, "ID rejected a string"),
    }
    std::mem::forget(r);
    let r = <ID as ScalarType>::parse(Value::Boolean(s.bool()));
    assert!(r.is_err(), "ID accepted a boolean");
    std::mem::forget(r);
    let r = <ID as ScalarType>::parse(Value::Null);
    assert!(r.is_err(), "ID accepted null");
    std::mem::forget(r);
    let f = s.f64();
    s.assume(f.is_finite());
    if let Some(num) = Number::from_f64(f) {
        let r = <ID as ScalarType>::parse(Value::Number(num));
        assert!(r.is_err(), "ID accepted a float");
        std::mem::forget(r);
    }
}

macro_rules! int_harnesses {
    ($($t:ty => $a:ident, $v:ident, $r:ident, $k:ident;)*) => {
        harnesses! {
            $(
            #[kani::unwind(3)] #[kani::stub(std::fmt::format, crate::stubs::fmt_stub)] $a => int_accepts::<$t, _>;
            #[kani::unwind(3)] #[kani::stub(std::fmt::format, crate::stubs::fmt_stub)] $v => int_valid_if_parses::<$t, _>;
            #[kani::unwind(3)] #[kani::stub(std::fmt::format, crate::stubs::fmt_stub)] $r => int_roundtrip::<$t, _>;
            #[kani::unwind(3)] #[kani::stub(std::fmt::format, crate::stubs::fmt_stub)] $k => int_other_kinds::<$t, _>;
            )*
            #[kani::unwind(3)] #[kani::stub(std::fmt::format, crate::stubs::fmt_stub)] c07_f64_accepts => f64_accepts;
            #[kani::unwind(3)] #[kani::stub(std::fmt::format, crate::stubs::fmt_stub)] c07_f32_accepts => f32_accepts;
            #[kani::unwind(3)] #[kani::stub(std::fmt::format, crate::stubs::fmt_stub)] c07_f64_roundtrip => f64_roundtrip;
            #[kani::unwind(3)] #[kani::stub(std::fmt::format, crate::stubs::fmt_stub)] c07_f32_roundtrip => f32_roundtrip;
            #[kani::unwind(3)] #[kani::stub(std::fmt::format, crate::stubs::fmt_stub)] c07_float_other_kinds => float_other_kinds;
            #[kani::unwind(3)] #[kani::stub(std::fmt::format, crate::stubs::fmt_stub)] c07_bool => bool_scalar;
            #[kani::unwind(6)] #[kani::stub(std::fmt::format, crate::stubs::fmt_stub)] c07_char_roundtrip => char_roundtrip;
            #[kani::unwind(6)] #[kani::stub(std::fmt::format, crate::stubs::fmt_stub)] c07_char_accepts => char_accepts;
            #[kani::unwind(6)] #[kani::stub(std::fmt::format, crate::stubs::fmt_stub)] c07_string => string_scalar;
            #[kani::unwind(6)] #[kani::stub(std::fmt::format, crate::stubs::fmt_stub)] c07_id => id_scalar;
        }
    };
}

int_harnesses! {
    i8 => c07_accepts_i8, c07_valid_i8, c07_rt_i8, c07_kinds_i8;
    i16 => c07_accepts_i16, c07_valid_i16, c07_rt_i16, c07_kinds_i16;
    i32 => c07_accepts_i32, c07_valid_i32, c07_rt_i32, c07_kinds_i32;
    i64 => c07_accepts_i64, c07_valid_i64, c07_rt_i64, c07_kinds_i64;
    isize => c07_accepts_isize, c07_valid_isize, c07_rt_isize, c07_kinds_isize;
    u8 => c07_accepts_u8, c07_valid_u8, c07_rt_u8, c07_kinds_u8;
    u16 => c07_accepts_u16, c07_valid_u16, c07_rt_u16, c07_kinds_u16;
    u32 => c07_accepts_u32, c07_valid_u32, c07_rt_u32, c07_kinds_u32;
    u64 => c07_accepts_u64, c07_valid_u64, c07_rt_u64, c07_kinds_u64;
    usize => c07_accepts_usize, c07_valid_usize, c07_rt_usize, c07_kinds_usize;
    NonZeroI8 => c07_accepts_nzi8, c07_valid_nzi8, c07_rt_nzi8, c07_kinds_nzi8;
    NonZeroI16 => c07_accepts_nzi16, c07_valid_nzi16, c07_rt_nzi16, c07_kinds_nzi16;
    NonZeroI32 => c07_accepts_nzi32, c07_valid_nzi32, c07_rt_nzi32, c07_kinds_nzi32;
    NonZeroI64 => c07_accepts_nzi64, c07_valid_nzi64, c07_rt_nzi64, c07_kinds_nzi64;
    NonZeroIsize => c07_accepts_nzisize, c07_valid_nzisize, c07_rt_nzisize, c07_kinds_nzisize;
    NonZeroU8 => c07_accepts_nzu8, c07_valid_nzu8, c07_rt_nzu8, c07_kinds_nzu8;
    NonZeroU16 => c07_accepts_nzu16, c07_valid_nzu16, c07_rt_nzu16, c07_kinds_nzu16;
    NonZeroU32 => c07_accepts_nzu32, c07_valid_nzu32, c07_rt_nzu32, c07_kinds_nzu32;
    NonZeroU64 => c07_accepts_nzu64, c07_valid_nzu64, c07_rt_nzu64, c07_kinds_nzu64;
    NonZeroUsize => c07_accepts_nzusize, c07_valid_nzusize, c07_rt_nzusize, c07_kinds_nzusize;
}

// ---------------------------------------------------------------- derived enums

/// A derive-built enum (the `Enum` macro generates `EnumType::items` and delegates input
/// coercion to `resolver_utils::parse_enum`, serialization to `enum_value`).
#[derive(async_graphql::Enum, Copy, Clone, Eq, PartialEq)]
pub enum Color {
    A,
    B,
    C,
}

fn color_of(k: usize) -> Color {
    match k {
        0 => Color::A,
        1 => Color::B,
        _ => Color::C,
    }
}

/// An enum value / a string of one ASCII letter is accepted iff it names a variant, and then
/// coerces to that variant. `AS_STRING` selects the value kind (concrete per harness).
fn enum_accepts<S: Src, const AS_STRING: bool>(s: &mut S) {
    use async_graphql::{InputType, Name};
    let b = s.u8();
    s.assume((b >= b'A' && b <= b'Z') || (b >= b'a' && b <= b'z'));
    let text = unsafe { String::from_utf8_unchecked(vec![b]) };
    let v = if AS_STRING { Value::String(text) } else { Value::Enum(Name::new(&text)) };
    let r = <Color as InputType>::parse(Some(v));
    let expect = b == b'A' || b == b'B' || b == b'C';
    cover!(expect, "a variant name");
    cover!(!expect, "not a variant name");
    match &r {
        Ok(c) => assert!(expect && *c == color_of((b - b'A') as usize), "accepted a value that names no variant / wrong variant"),
        Err(_) => assert!(!expect, "rejected a variant name"),
    }
    std::mem::forget(r);
}
pub fn enum_accepts_enum<S: Src>(s: &mut S) { enum_accepts::<S, false>(s) }
pub fn enum_accepts_string<S: Src>(s: &mut S) { enum_accepts::<S, true>(s) }

/// Every variant serializes to the enum value of its name and coerces back to itself;
/// numbers, booleans and null are rejected.
pub fn enum_roundtrip<S: Src>(s: &mut S) {
    use async_graphql::InputType;
    let k = s.below(3);
    let c = color_of(k);
    cover!(k == 2, "last variant");
    let val = std::mem::ManuallyDrop::new(InputType::to_value(&c));
    match &*val {
        Value::Enum(n) => {
            assert!(n.as_str().len() == 1 && n.as_str().as_bytes()[0] == b'A' + k as u8, "variant serializes to its name");
            let r = <Color as InputType>::parse(Some(Value::Enum(n.clone())));
            assert!(matches!(&r, Ok(d) if *d == c), "round trip changed the variant");
            std::mem::forget(r);
        }
        _ => assert!(false, "an enum serializes to an enum value"),
    }
    let (num, _) = any_number(s);
    let r = <Color as InputType>::parse(Some(Value::Number(num)));
    assert!(r.is_err(), "an enum accepted a number");
    std::mem::forget(r);
    let r = <Color as InputType>::parse(Some(Value::Boolean(s.bool())));
    assert!(r.is_err(), "an enum accepted a boolean");
    std::mem::forget(r);
    let r = <Color as InputType>::parse(Some(Value::Null));
    assert!(r.is_err(), "an enum accepted null");
    std::mem::forget(r);
}

pub mod enums {
    use super::*;
    harnesses! {
        #[kani::unwind(5)] #[kani::stub(std::fmt::format, crate::stubs::fmt_stub)] c07_enum_accepts_enum => enum_accepts_enum;
        #[kani::unwind(5)] #[kani::stub(std::fmt::format, crate::stubs::fmt_stub)] c07_enum_accepts_string => enum_accepts_string;
        #[kani::unwind(5)] #[kani::stub(std::fmt::format, crate::stubs::fmt_stub)] c07_enum_roundtrip => enum_roundtrip;
    }
}
