//! C08 — built-in input validators accept exactly the values satisfying their predicate.
//! Real code: src/validators/{maximum,minimum,multiple_of,max_length,min_length,
//! chars_max_length,chars_min_length,max_items,min_items}.rs. The derive macro
//! (derive/src/validators.rs) always passes the bound as `i64` (integer literal) or `f64`
//! (float literal), so these are the two instantiations of `N`.
use async_graphql::validators::*;

use crate::vsrc::Src;

// ------------------------------------------------------------------ exact comparisons (oracle)

/// floor(n) as i128 for a finite n with |n| < 2^100 (exact: a truncated f64 is representable).
fn floor_i128(n: f64) -> i128 {
    let t = n as i128;
    if (t as f64) > n {
        t - 1
    } else {
        t
    }
}
fn ceil_i128(n: f64) -> i128 {
    let t = n as i128;
    if (t as f64) < n {
        t + 1
    } else {
        t
    }
}
const BIG: f64 = 1.0e30;

/// v <= n for an integer v (|v| < 2^64) and any f64 n, in exact arithmetic.
fn int_le_f64(v: i128, n: f64) -> bool {
    if n.is_nan() {
        false
    } else if n >= BIG {
        true
    } else if n <= -BIG {
        false
    } else {
        v <= floor_i128(n)
    }
}
fn int_ge_f64(v: i128, n: f64) -> bool {
    if n.is_nan() {
        false
    } else if n >= BIG {
        false
    } else if n <= -BIG {
        true
    } else {
        v >= ceil_i128(n)
    }
}
/// v <= n for a finite float v and an integer n, in exact arithmetic.
fn f64_le_int(v: f64, n: i128) -> bool {
    if v >= BIG {
        false
    } else if v <= -BIG {
        true
    } else {
        ceil_i128(v) <= n
    }
}
fn f64_ge_int(v: f64, n: i128) -> bool {
    if v >= BIG {
        true
    } else if v <= -BIG {
        false
    } else {
        floor_i128(v) >= n
    }
}

/// A numeric Rust type that can carry the numeric validators.
pub trait VNum: Copy + async_graphql::InputType {
    /// Exact value of an integer type (unused for floats).
    fn exact_i128(self) -> i128;
    fn draw<S: Src>(s: &mut S) -> Self;
    fn le_i64(self, n: i64) -> bool;
    fn ge_i64(self, n: i64) -> bool;
    fn le_f64(self, n: f64) -> bool;
    fn ge_f64(self, n: f64) -> bool;
    /// Role key of the region in which the conversion to i64 is lossy (None: conversion exact).
    fn region_i64(self) -> Option<&'static str>;
    /// Role key of the region in which the conversion to f64 is lossy.
    fn region_f64(self) -> Option<&'static str>;
}

macro_rules! vnum_int {
    ($($t:ty, $draw:ident, $ri64:expr, $rf64:expr);*) => { $(
        impl VNum for $t {
            fn exact_i128(self) -> i128 { self as i128 }
            fn draw<S: Src>(s: &mut S) -> Self { s.$draw() }
            fn le_i64(self, n: i64) -> bool { (self as i128) <= n as i128 }
            fn ge_i64(self, n: i64) -> bool { (self as i128) >= n as i128 }
            fn le_f64(self, n: f64) -> bool { int_le_f64(self as i128, n) }
            fn ge_f64(self, n: f64) -> bool { int_ge_f64(self as i128, n) }
            fn region_i64(self) -> Option<&'static str> {
                let f: fn(i128) -> Option<&'static str> = $ri64;
                f(self as i128)
            }
            fn region_f64(self) -> Option<&'static str> {
                let f: fn(i128) -> Option<&'static str> = $rf64;
                f(self as i128)
            }
        }
    )* };
}
fn none(_: i128) -> Option<&'static str> {
    None
}
fn above_i64(v: i128) -> Option<&'static str> {
    if v > i64::MAX as i128 {
        Some("unsigned-above-i64-max")
    } else {
        None
    }
}
fn beyond_2_53(v: i128) -> Option<&'static str> {
    if v > (1i128 << 53) || v < -(1i128 << 53) {
        Some("int-to-f64-rounding")
    } else {
        None
    }
}
vnum_int!(i8, i8, none, none; i16, i16, none, none; i32, i32, none, none; i64, i64, none, beyond_2_53;
          isize, isize, none, beyond_2_53; u8, u8, none, none; u16, u16, none, none; u32, u32, none, none;
          u64, u64, above_i64, beyond_2_53; usize, usize, above_i64, beyond_2_53);

macro_rules! vnum_float {
    ($($t:ty, $draw:ident);*) => { $(
        impl VNum for $t {
            fn exact_i128(self) -> i128 { 0 }
            fn draw<S: Src>(s: &mut S) -> Self {
                let v = s.$draw();
                s.assume(v.is_finite());
                v
            }
            fn le_i64(self, n: i64) -> bool { f64_le_int(self as f64, n as i128) }
            fn ge_i64(self, n: i64) -> bool { f64_ge_int(self as f64, n as i128) }
            fn le_f64(self, n: f64) -> bool { (self as f64) <= n }
            fn ge_f64(self, n: f64) -> bool { (self as f64) >= n }
            fn region_i64(self) -> Option<&'static str> {
                let v = self as f64;
                if v >= 9.2e18 || v <= -9.2e18 || (floor_i128(v) as f64) != v {
                    Some("float-truncated-to-i64")
                } else {
                    None
                }
            }
            fn region_f64(self) -> Option<&'static str> { None }
        }
    )* };
}
vnum_float!(f32, f32; f64, f64);

// ------------------------------------------------------------------ maximum / minimum

macro_rules! minmax_bodies {
    ($($t:ty => $max_i:ident, $min_i:ident, $max_f:ident, $min_f:ident, $max_ix:ident, $min_ix:ident, $max_fx:ident, $min_fx:ident;)*) => { $(
        pub fn $max_i<S: Src>(s: &mut S) { minmax_i64::<$t, S>(s, true, false) }
        pub fn $min_i<S: Src>(s: &mut S) { minmax_i64::<$t, S>(s, false, false) }
        pub fn $max_f<S: Src>(s: &mut S) { minmax_f64::<$t, S>(s, true, false) }
        pub fn $min_f<S: Src>(s: &mut S) { minmax_f64::<$t, S>(s, false, false) }
        pub fn $max_ix<S: Src>(s: &mut S) { minmax_i64::<$t, S>(s, true, true) }
        pub fn $min_ix<S: Src>(s: &mut S) { minmax_i64::<$t, S>(s, false, true) }
        pub fn $max_fx<S: Src>(s: &mut S) { minmax_f64::<$t, S>(s, true, true) }
        pub fn $min_fx<S: Src>(s: &mut S) { minmax_f64::<$t, S>(s, false, true) }
    )* };
}

trait MinMax: VNum {
    fn max_i64(&self, n: i64) -> bool;
    fn min_i64(&self, n: i64) -> bool;
    fn max_f64(&self, n: f64) -> bool;
    fn min_f64(&self, n: f64) -> bool;
    fn mult_i64(&self, n: i64) -> bool;
}
macro_rules! minmax_impl {
    ($($t:ty),*) => { $(
        impl MinMax for $t {
            fn max_i64(&self, n: i64) -> bool { let r = maximum(self, n); let ok = r.is_ok(); std::mem::forget(r); ok }
            fn min_i64(&self, n: i64) -> bool { let r = minimum(self, n); let ok = r.is_ok(); std::mem::forget(r); ok }
            fn max_f64(&self, n: f64) -> bool { let r = maximum(self, n); let ok = r.is_ok(); std::mem::forget(r); ok }
            fn min_f64(&self, n: f64) -> bool { let r = minimum(self, n); let ok = r.is_ok(); std::mem::forget(r); ok }
            fn mult_i64(&self, n: i64) -> bool { let r = multiple_of(self, n); let ok = r.is_ok(); std::mem::forget(r); ok }
        }
    )* };
}
minmax_impl!(i8, i16, i32, i64, isize, u8, u16, u32, u64, usize, f32, f64);

/// `maximum(&v, n)` / `minimum(&v, n)` with an integer bound: Ok iff v <= n (v >= n) exactly.
/// `excl`: the regions of recorded findings are assumed away (complement run).
fn minmax_i64<T: MinMax, S: Src>(s: &mut S, is_max: bool, excl: bool) {
    let v = T::draw(s);
    let n = s.i64();
    if excl {
        s.assume(v.region_i64().is_none());
    }
    let (got, want) = if is_max { (v.max_i64(n), v.le_i64(n)) } else { (v.min_i64(n), v.ge_i64(n)) };
    cover!(want, "predicate holds");
    cover!(!want, "predicate fails");
    if got != want {
        s.key(v.region_i64().unwrap_or("exact-conversion-region"));
    }
    assert!(got || !want, "validator rejects a value that satisfies the predicate");
    assert!(!got || want, "validator accepts a value that violates the predicate");
}

/// The same with a float bound (any finite f64).
fn minmax_f64<T: MinMax, S: Src>(s: &mut S, is_max: bool, excl: bool) {
    let v = T::draw(s);
    let n = s.f64();
    s.assume(n.is_finite());
    if excl {
        s.assume(v.region_f64().is_none());
    }
    let (got, want) = if is_max { (v.max_f64(n), v.le_f64(n)) } else { (v.min_f64(n), v.ge_f64(n)) };
    cover!(want, "predicate holds");
    cover!(!want, "predicate fails");
    if got != want {
        s.key(v.region_f64().unwrap_or("exact-conversion-region"));
    }
    assert!(got || !want, "validator rejects a value that satisfies the predicate");
    assert!(!got || want, "validator accepts a value that violates the predicate");
}

minmax_bodies! {
    i8 => max_i64_i8, min_i64_i8, max_f64_i8, min_f64_i8, max_i64x_i8, min_i64x_i8, max_f64x_i8, min_f64x_i8;
    i16 => max_i64_i16, min_i64_i16, max_f64_i16, min_f64_i16, max_i64x_i16, min_i64x_i16, max_f64x_i16, min_f64x_i16;
    i32 => max_i64_i32, min_i64_i32, max_f64_i32, min_f64_i32, max_i64x_i32, min_i64x_i32, max_f64x_i32, min_f64x_i32;
    i64 => max_i64_i64, min_i64_i64, max_f64_i64, min_f64_i64, max_i64x_i64, min_i64x_i64, max_f64x_i64, min_f64x_i64;
    isize => max_i64_isize, min_i64_isize, max_f64_isize, min_f64_isize, max_i64x_isize, min_i64x_isize, max_f64x_isize, min_f64x_isize;
    u8 => max_i64_u8, min_i64_u8, max_f64_u8, min_f64_u8, max_i64x_u8, min_i64x_u8, max_f64x_u8, min_f64x_u8;
    u16 => max_i64_u16, min_i64_u16, max_f64_u16, min_f64_u16, max_i64x_u16, min_i64x_u16, max_f64x_u16, min_f64x_u16;
    u32 => max_i64_u32, min_i64_u32, max_f64_u32, min_f64_u32, max_i64x_u32, min_i64x_u32, max_f64x_u32, min_f64x_u32;
    u64 => max_i64_u64, min_i64_u64, max_f64_u64, min_f64_u64, max_i64x_u64, min_i64x_u64, max_f64x_u64, min_f64x_u64;
    usize => max_i64_usize, min_i64_usize, max_f64_usize, min_f64_usize, max_i64x_usize, min_i64x_usize, max_f64x_usize, min_f64x_usize;
    f32 => max_i64_f32, min_i64_f32, max_f64_f32, min_f64_f32, max_i64x_f32, min_i64x_f32, max_f64x_f32, min_f64x_f32;
    f64 => max_i64_f64, min_i64_f64, max_f64_f64, min_f64_f64, max_i64x_f64, min_i64x_f64, max_f64x_f64, min_f64x_f64;
}

// ------------------------------------------------------------------ multiple_of (integer bound)

/// `multiple_of(&v, n)` for an integer v and integer n: Ok iff v mod n == 0 exactly – for
/// v != 0 (the crate documents and tests that 0 is rejected) and n not in {0, -1}
/// (configuration-time values for which `%` is undefined / overflows).
/// `nsel`: 0 = every i64 n (only feasible for 8-bit v: a 64-bit symbolic divider does not
/// finish), otherwise one of the fixed divisors 3, 10, -7 with v at full width.
fn mult_i64<T: MinMax, S: Src>(s: &mut S, nsel: u8, excl: bool) {
    let v = T::draw(s);
    let n: i64 = match nsel {
        0 => {
            let n = s.i64();
            s.assume(n != 0 && n != -1);
            n
        }
        1 => 3,
        2 => 10,
        _ => -7,
    };
    let exact_v = v.exact_i128();
    s.assume(exact_v != 0);
    if excl {
        s.assume(v.region_i64().is_none());
    }
    let got = v.mult_i64(n);
    let want = exact_v % (n as i128) == 0;
    cover!(want, "is a multiple");
    cover!(!want, "is not a multiple");
    if got != want {
        s.key(v.region_i64().unwrap_or("exact-conversion-region"));
    }
    assert!(got == want, "multiple_of disagrees with exact divisibility");
}

macro_rules! mult_bodies {
    ($($t:ty => $m1:ident, $m2:ident, $m3:ident, $x1:ident, $x2:ident, $x3:ident;)*) => { $(
        pub fn $m1<S: Src>(s: &mut S) { mult_i64::<$t, S>(s, 1, false) }
        pub fn $m2<S: Src>(s: &mut S) { mult_i64::<$t, S>(s, 2, false) }
        pub fn $m3<S: Src>(s: &mut S) { mult_i64::<$t, S>(s, 3, false) }
        pub fn $x1<S: Src>(s: &mut S) { mult_i64::<$t, S>(s, 1, true) }
        pub fn $x2<S: Src>(s: &mut S) { mult_i64::<$t, S>(s, 2, true) }
        pub fn $x3<S: Src>(s: &mut S) { mult_i64::<$t, S>(s, 3, true) }
    )* };
}
mult_bodies! {
    i8 => mult3_i8, mult10_i8, multm7_i8, mult3x_i8, mult10x_i8, multm7x_i8;
    i16 => mult3_i16, mult10_i16, multm7_i16, mult3x_i16, mult10x_i16, multm7x_i16;
    i32 => mult3_i32, mult10_i32, multm7_i32, mult3x_i32, mult10x_i32, multm7x_i32;
    i64 => mult3_i64, mult10_i64, multm7_i64, mult3x_i64, mult10x_i64, multm7x_i64;
    isize => mult3_isize, mult10_isize, multm7_isize, mult3x_isize, mult10x_isize, multm7x_isize;
    u8 => mult3_u8, mult10_u8, multm7_u8, mult3x_u8, mult10x_u8, multm7x_u8;
    u16 => mult3_u16, mult10_u16, multm7_u16, mult3x_u16, mult10x_u16, multm7x_u16;
    u32 => mult3_u32, mult10_u32, multm7_u32, mult3x_u32, mult10x_u32, multm7x_u32;
    u64 => mult3_u64, mult10_u64, multm7_u64, mult3x_u64, mult10x_u64, multm7x_u64;
    usize => mult3_usize, mult10_usize, multm7_usize, mult3x_usize, mult10x_usize, multm7x_usize;
}
pub fn mult_any_i8<S: Src>(s: &mut S) { mult_i64::<i8, S>(s, 0, false) }
pub fn mult_any_u8<S: Src>(s: &mut S) { mult_i64::<u8, S>(s, 0, false) }

// ------------------------------------------------------------------ string lengths

/// Reference UTF-8 recogniser for up to 4 bytes: Some(number of scalar values) iff well formed
/// (Unicode Standard table 3-7).
pub fn utf8_chars(b: &[u8]) -> Option<usize> {
    let mut i = 0;
    let mut n = 0;
    while i < b.len() {
        let b0 = b[i];
        let need = if b0 < 0x80 {
            0
        } else if b0 >= 0xC2 && b0 <= 0xDF {
            1
        } else if b0 >= 0xE0 && b0 <= 0xEF {
            2
        } else if b0 >= 0xF0 && b0 <= 0xF4 {
            3
        } else {
            return None;
        };
        if need > 0 && i + need >= b.len() {
            return None; // truncated sequence
        }
        if need >= 1 {
            let b1 = b[i + 1];
            let (lo, hi) = match b0 {
                0xE0 => (0xA0, 0xBF),
                0xED => (0x80, 0x9F),
                0xF0 => (0x90, 0xBF),
                0xF4 => (0x80, 0x8F),
                _ => (0x80, 0xBF),
            };
            if b1 < lo || b1 > hi {
                return None;
            }
        }
        if need >= 2 {
            let b2 = b[i + 2];
            if b2 < 0x80 || b2 > 0xBF {
                return None;
            }
        }
        if need >= 3 {
            let b3 = b[i + 3];
            if b3 < 0x80 || b3 > 0xBF {
                return None;
            }
        }
        i += need + 1;
        n += 1;
    }
    Some(n)
}

/// The four length validators on every well-formed UTF-8 string of exactly L bytes (the
/// length is concrete so that `str::chars().count()` takes its short-string path; the bytes
/// are symbolic) against byte-count / scalar-count, for every bound.
fn str_lengths<S: Src, const L: usize>(s: &mut S) {
    let mut bytes = [0u8; L];
    let mut i = 0;
    while i < L {
        bytes[i] = s.u8();
        i += 1;
    }
    let chars = match utf8_chars(&bytes) {
        Some(n) => n,
        None => {
            s.assume(false);
            0
        }
    };
    let st = match String::from_utf8(bytes.to_vec()) {
        Ok(st) => st,
        Err(_) => {
            assert!(false, "reference recogniser accepted ill-formed UTF-8");
            return;
        }
    };
    let len = s.usize();
    cover!(chars == 1 || L == 0, "a single scalar value of L bytes");
    cover!(len == chars, "bound equals char count");
    cover!(len == L, "bound equals byte length");
    macro_rules! chk {
        ($f:ident, $want:expr, $msg:literal) => {{
            let r = $f(&st, len);
            let ok = r.is_ok();
            std::mem::forget(r);
            assert!(ok == $want, $msg);
        }};
    }
    chk!(max_length, L <= len, "max_length <=> byte length <= bound");
    chk!(min_length, L >= len, "min_length <=> byte length >= bound");
    chk!(chars_max_length, chars <= len, "chars_max_length <=> char count <= bound");
    chk!(chars_min_length, chars >= len, "chars_min_length <=> char count >= bound");
    std::mem::forget(st);
}
pub fn str_lengths0<S: Src>(s: &mut S) { str_lengths::<S, 0>(s) }
pub fn str_lengths1<S: Src>(s: &mut S) { str_lengths::<S, 1>(s) }
pub fn str_lengths2<S: Src>(s: &mut S) { str_lengths::<S, 2>(s) }
pub fn str_lengths3<S: Src>(s: &mut S) { str_lengths::<S, 3>(s) }
pub fn str_lengths4<S: Src>(s: &mut S) { str_lengths::<S, 4>(s) }

// ------------------------------------------------------------------ list sizes

pub fn items<S: Src>(s: &mut S) {
    let n = s.below(4);
    let len = s.usize();
    let mut v: Vec<i32> = Vec::new();
    let mut i = 0;
    while i < 3 {
        if i < n {
            v.push(s.i32());
        }
        i += 1;
    }
    cover!(n == 3 && len == 3, "bound equals length");
    cover!(n == 0, "empty list");
    let r = max_items(&v, len);
    let ok = r.is_ok();
    std::mem::forget(r);
    assert!(ok == (n <= len), "max_items <=> length <= bound");
    let r = min_items(&v, len);
    let ok = r.is_ok();
    std::mem::forget(r);
    assert!(ok == (n >= len), "min_items <=> length >= bound");
    std::mem::forget(v);
}

harnesses! {
    #[kani::unwind(3)] #[kani::stub(std::fmt::format, crate::stubs::fmt_stub)] c08_max_i64_i8 => max_i64_i8;
    #[kani::unwind(3)] #[kani::stub(std::fmt::format, crate::stubs::fmt_stub)] c08_min_i64_i8 => min_i64_i8;
    #[kani::unwind(3)] #[kani::stub(std::fmt::format, crate::stubs::fmt_stub)] c08_max_f64_i8 => max_f64_i8;
    #[kani::unwind(3)] #[kani::stub(std::fmt::format, crate::stubs::fmt_stub)] c08_min_f64_i8 => min_f64_i8;
    #[kani::unwind(3)] #[kani::stub(std::fmt::format, crate::stubs::fmt_stub)] c08_max_i64x_i8 => max_i64x_i8;
    #[kani::unwind(3)] #[kani::stub(std::fmt::format, crate::stubs::fmt_stub)] c08_min_i64x_i8 => min_i64x_i8;
    #[kani::unwind(3)] #[kani::stub(std::fmt::format, crate::stubs::fmt_stub)] c08_max_f64x_i8 => max_f64x_i8;
    #[kani::unwind(3)] #[kani::stub(std::fmt::format, crate::stubs::fmt_stub)] c08_min_f64x_i8 => min_f64x_i8;
    #[kani::unwind(3)] #[kani::stub(std::fmt::format, crate::stubs::fmt_stub)] c08_max_i64_i16 => max_i64_i16;
    #[kani::unwind(3)] #[kani::stub(std::fmt::format, crate::stubs::fmt_stub)] c08_min_i64_i16 => min_i64_i16;
    #[kani::unwind(3)] #[kani::stub(std::fmt::format, crate::stubs::fmt_stub)] c08_max_f64_i16 => max_f64_i16;
    #[kani::unwind(3)] #[kani::stub(std::fmt::format, crate::stubs::fmt_stub)] c08_min_f64_i16 => min_f64_i16;
    #[kani::unwind(3)] #[kani::stub(std::fmt::format, crate::stubs::fmt_stub)] c08_max_i64x_i16 => max_i64x_i16;
    #[kani::unwind(3)] #[kani::stub(std::fmt::format, crate::stubs::fmt_stub)] c08_min_i64x_i16 => min_i64x_i16;
    #[kani::unwind(3)] #[kani::stub(std::fmt::format, crate::stubs::fmt_stub)] c08_max_f64x_i16 => max_f64x_i16;
    #[kani::unwind(3)] #[kani::stub(std::fmt::format, crate::stubs::fmt_stub)] c08_min_f64x_i16 => min_f64x_i16;
    #[kani::unwind(3)] #[kani::stub(std::fmt::format, crate::stubs::fmt_stub)] c08_max_i64_i32 => max_i64_i32;
    #[kani::unwind(3)] #[kani::stub(std::fmt::format, crate::stubs::fmt_stub)] c08_min_i64_i32 => min_i64_i32;
    #[kani::unwind(3)] #[kani::stub(std::fmt::format, crate::stubs::fmt_stub)] c08_max_f64_i32 => max_f64_i32;
    #[kani::unwind(3)] #[kani::stub(std::fmt::format, crate::stubs::fmt_stub)] c08_min_f64_i32 => min_f64_i32;
    #[kani::unwind(3)] #[kani::stub(std::fmt::format, crate::stubs::fmt_stub)] c08_max_i64x_i32 => max_i64x_i32;
    #[kani::unwind(3)] #[kani::stub(std::fmt::format, crate::stubs::fmt_stub)] c08_min_i64x_i32 => min_i64x_i32;
    #[kani::unwind(3)] #[kani::stub(std::fmt::format, crate::stubs::fmt_stub)] c08_max_f64x_i32 => max_f64x_i32;
    #[kani::unwind(3)] #[kani::stub(std::fmt::format, crate::stubs::fmt_stub)] c08_min_f64x_i32 => min_f64x_i32;
    #[kani::unwind(3)] #[kani::stub(std::fmt::format, crate::stubs::fmt_stub)] c08_max_i64_i64 => max_i64_i64;
    #[kani::unwind(3)] #[kani::stub(std::fmt::format, crate::stubs::fmt_stub)] c08_min_i64_i64 => min_i64_i64;
    #[kani::unwind(3)] #[kani::stub(std::fmt::format, crate::stubs::fmt_stub)] c08_max_f64_i64 => max_f64_i64;
    #[kani::unwind(3)] #[kani::stub(std::fmt::format, crate::stubs::fmt_stub)] c08_min_f64_i64 => min_f64_i64;
    #[kani::unwind(3)] #[kani::stub(std::fmt::format, crate::stubs::fmt_stub)] c08_max_i64x_i64 => max_i64x_i64;
    #[kani::unwind(3)] #[kani::stub(std::fmt::format, crate::stubs::fmt_stub)] c08_min_i64x_i64 => min_i64x_i64;
    #[kani::unwind(3)] #[kani::stub(std::fmt::format, crate::stubs::fmt_stub)] c08_max_f64x_i64 => max_f64x_i64;
    #[kani::unwind(3)] #[kani::stub(std::fmt::format, crate::stubs::fmt_stub)] c08_min_f64x_i64 => min_f64x_i64;
    #[kani::unwind(3)] #[kani::stub(std::fmt::format, crate::stubs::fmt_stub)] c08_max_i64_isize => max_i64_isize;
    #[kani::unwind(3)] #[kani::stub(std::fmt::format, crate::stubs::fmt_stub)] c08_min_i64_isize => min_i64_isize;
    #[kani::unwind(3)] #[kani::stub(std::fmt::format, crate::stubs::fmt_stub)] c08_max_f64_isize => max_f64_isize;
    #[kani::unwind(3)] #[kani::stub(std::fmt::format, crate::stubs::fmt_stub)] c08_min_f64_isize => min_f64_isize;
    #[kani::unwind(3)] #[kani::stub(std::fmt::format, crate::stubs::fmt_stub)] c08_max_i64x_isize => max_i64x_isize;
    #[kani::unwind(3)] #[kani::stub(std::fmt::format, crate::stubs::fmt_stub)] c08_min_i64x_isize => min_i64x_isize;
    #[kani::unwind(3)] #[kani::stub(std::fmt::format, crate::stubs::fmt_stub)] c08_max_f64x_isize => max_f64x_isize;
    #[kani::unwind(3)] #[kani::stub(std::fmt::format, crate::stubs::fmt_stub)] c08_min_f64x_isize => min_f64x_isize;
    #[kani::unwind(3)] #[kani::stub(std::fmt::format, crate::stubs::fmt_stub)] c08_max_i64_u8 => max_i64_u8;
    #[kani::unwind(3)] #[kani::stub(std::fmt::format, crate::stubs::fmt_stub)] c08_min_i64_u8 => min_i64_u8;
    #[kani::unwind(3)] #[kani::stub(std::fmt::format, crate::stubs::fmt_stub)] c08_max_f64_u8 => max_f64_u8;
    #[kani::unwind(3)] #[kani::stub(std::fmt::format, crate::stubs::fmt_stub)] c08_min_f64_u8 => min_f64_u8;
    #[kani::unwind(3)] #[kani::stub(std::fmt::format, crate::stubs::fmt_stub)] c08_max_i64x_u8 => max_i64x_u8;
    #[kani::unwind(3)] #[kani::stub(std::fmt::format, crate::stubs::fmt_stub)] c08_min_i64x_u8 => min_i64x_u8;
    #[kani::unwind(3)] #[kani::stub(std::fmt::format, crate::stubs::fmt_stub)] c08_max_f64x_u8 => max_f64x_u8;
    #[kani::unwind(3)] #[kani::stub(std::fmt::format, crate::stubs::fmt_stub)] c08_min_f64x_u8 => min_f64x_u8;
    #[kani::unwind(3)] #[kani::stub(std::fmt::format, crate::stubs::fmt_stub)] c08_max_i64_u16 => max_i64_u16;
    #[kani::unwind(3)] #[kani::stub(std::fmt::format, crate::stubs::fmt_stub)] c08_min_i64_u16 => min_i64_u16;
    #[kani::unwind(3)] #[kani::stub(std::fmt::format, crate::stubs::fmt_stub)] c08_max_f64_u16 => max_f64_u16;
    #[kani::unwind(3)] #[kani::stub(std::fmt::format, crate::stubs::fmt_stub)] c08_min_f64_u16 => min_f64_u16;
    #[kani::unwind(3)] #[kani::stub(std::fmt::format, crate::stubs::fmt_stub)] c08_max_i64x_u16 => max_i64x_u16;
    #[kani::unwind(3)] #[kani::stub(std::fmt::format, crate::stubs::fmt_stub)] c08_min_i64x_u16 => min_i64x_u16;
    #[kani::unwind(3)] #[kani::stub(std::fmt::format, crate::stubs::fmt_stub)] c08_max_f64x_u16 => max_f64x_u16;
    #[kani::unwind(3)] #[kani::stub(std::fmt::format, crate::stubs::fmt_stub)] c08_min_f64x_u16 => min_f64x_u16;
    #[kani::unwind(3)] #[kani::stub(std::fmt::format, crate::stubs::fmt_stub)] c08_max_i64_u32 => max_i64_u32;
    #[kani::unwind(3)] #[kani::stub(std::fmt::format, crate::stubs::fmt_stub)] c08_min_i64_u32 => min_i64_u32;
    #[kani::unwind(3)] #[kani::stub(std::fmt::format, crate::stubs::fmt_stub)] c08_max_f64_u32 => max_f64_u32;
    #[kani::unwind(3)] #[kani::stub(std::fmt::format, crate::stubs::fmt_stub)] c08_min_f64_u32 => min_f64_u32;
    #[kani::unwind(3)] #[kani::stub(std::fmt::format, crate::stubs::fmt_stub)] c08_max_i64x_u32 => max_i64x_u32;
    #[kani::unwind(3)] #[kani::stub(std::fmt::format, crate::stubs::fmt_stub)] c08_min_i64x_u32 => min_i64x_u32;
    #[kani::unwind(3)] #[kani::stub(std::fmt::format, crate::stubs::fmt_stub)] c08_max_f64x_u32 => max_f64x_u32;
    #[kani::unwind(3)] #[kani::stub(std::fmt::format, crate::stubs::fmt_stub)] c08_min_f64x_u32 => min_f64x_u32;
    #[kani::unwind(3)] #[kani::stub(std::fmt::format, crate::stubs::fmt_stub)] c08_max_i64_u64 => max_i64_u64;
    #[kani::unwind(3)] #[kani::stub(std::fmt::format, crate::stubs::fmt_stub)] c08_min_i64_u64 => min_i64_u64;
    #[kani::unwind(3)] #[kani::stub(std::fmt::format, crate::stubs::fmt_stub)] c08_max_f64_u64 => max_f64_u64;
    #[kani::unwind(3)] #[kani::stub(std::fmt::format, crate::stubs::fmt_stub)] c08_min_f64_u64 => min_f64_u64;
    #[kani::unwind(3)] #[kani::stub(std::fmt::format, crate::stubs::fmt_stub)] c08_max_i64x_u64 => max_i64x_u64;
    #[kani::unwind(3)] #[kani::stub(std::fmt::format, crate::stubs::fmt_stub)] c08_min_i64x_u64 => min_i64x_u64;
    #[kani::unwind(3)] #[kani::stub(std::fmt::format, crate::stubs::fmt_stub)] c08_max_f64x_u64 => max_f64x_u64;
    #[kani::unwind(3)] #[kani::stub(std::fmt::format, crate::stubs::fmt_stub)] c08_min_f64x_u64 => min_f64x_u64;
    #[kani::unwind(3)] #[kani::stub(std::fmt::format, crate::stubs::fmt_stub)] c08_max_i64_usize => max_i64_usize;
    #[kani::unwind(3)] #[kani::stub(std::fmt::format, crate::stubs::fmt_stub)] c08_min_i64_usize => min_i64_usize;
    #[kani::unwind(3)] #[kani::stub(std::fmt::format, crate::stubs::fmt_stub)] c08_max_f64_usize => max_f64_usize;
    #[kani::unwind(3)] #[kani::stub(std::fmt::format, crate::stubs::fmt_stub)] c08_min_f64_usize => min_f64_usize;
    #[kani::unwind(3)] #[kani::stub(std::fmt::format, crate::stubs::fmt_stub)] c08_max_i64x_usize => max_i64x_usize;
    #[kani::unwind(3)] #[kani::stub(std::fmt::format, crate::stubs::fmt_stub)] c08_min_i64x_usize => min_i64x_usize;
    #[kani::unwind(3)] #[kani::stub(std::fmt::format, crate::stubs::fmt_stub)] c08_max_f64x_usize => max_f64x_usize;
    #[kani::unwind(3)] #[kani::stub(std::fmt::format, crate::stubs::fmt_stub)] c08_min_f64x_usize => min_f64x_usize;
    #[kani::unwind(3)] #[kani::stub(std::fmt::format, crate::stubs::fmt_stub)] c08_max_i64_f32 => max_i64_f32;
    #[kani::unwind(3)] #[kani::stub(std::fmt::format, crate::stubs::fmt_stub)] c08_min_i64_f32 => min_i64_f32;
    #[kani::unwind(3)] #[kani::stub(std::fmt::format, crate::stubs::fmt_stub)] c08_max_f64_f32 => max_f64_f32;
    #[kani::unwind(3)] #[kani::stub(std::fmt::format, crate::stubs::fmt_stub)] c08_min_f64_f32 => min_f64_f32;
    #[kani::unwind(3)] #[kani::stub(std::fmt::format, crate::stubs::fmt_stub)] c08_max_i64x_f32 => max_i64x_f32;
    #[kani::unwind(3)] #[kani::stub(std::fmt::format, crate::stubs::fmt_stub)] c08_min_i64x_f32 => min_i64x_f32;
    #[kani::unwind(3)] #[kani::stub(std::fmt::format, crate::stubs::fmt_stub)] c08_max_f64x_f32 => max_f64x_f32;
    #[kani::unwind(3)] #[kani::stub(std::fmt::format, crate::stubs::fmt_stub)] c08_min_f64x_f32 => min_f64x_f32;
    #[kani::unwind(3)] #[kani::stub(std::fmt::format, crate::stubs::fmt_stub)] c08_max_i64_f64 => max_i64_f64;
    #[kani::unwind(3)] #[kani::stub(std::fmt::format, crate::stubs::fmt_stub)] c08_min_i64_f64 => min_i64_f64;
    #[kani::unwind(3)] #[kani::stub(std::fmt::format, crate::stubs::fmt_stub)] c08_max_f64_f64 => max_f64_f64;
    #[kani::unwind(3)] #[kani::stub(std::fmt::format, crate::stubs::fmt_stub)] c08_min_f64_f64 => min_f64_f64;
    #[kani::unwind(3)] #[kani::stub(std::fmt::format, crate::stubs::fmt_stub)] c08_max_i64x_f64 => max_i64x_f64;
    #[kani::unwind(3)] #[kani::stub(std::fmt::format, crate::stubs::fmt_stub)] c08_min_i64x_f64 => min_i64x_f64;
    #[kani::unwind(3)] #[kani::stub(std::fmt::format, crate::stubs::fmt_stub)] c08_max_f64x_f64 => max_f64x_f64;
    #[kani::unwind(3)] #[kani::stub(std::fmt::format, crate::stubs::fmt_stub)] c08_min_f64x_f64 => min_f64x_f64;
    #[kani::unwind(3)] #[kani::stub(std::fmt::format, crate::stubs::fmt_stub)] c08_mult3_i8 => mult3_i8;
    #[kani::unwind(3)] #[kani::stub(std::fmt::format, crate::stubs::fmt_stub)] c08_mult10_i8 => mult10_i8;
    #[kani::unwind(3)] #[kani::stub(std::fmt::format, crate::stubs::fmt_stub)] c08_multm7_i8 => multm7_i8;
    #[kani::unwind(3)] #[kani::stub(std::fmt::format, crate::stubs::fmt_stub)] c08_mult3x_i8 => mult3x_i8;
    #[kani::unwind(3)] #[kani::stub(std::fmt::format, crate::stubs::fmt_stub)] c08_mult10x_i8 => mult10x_i8;
    #[kani::unwind(3)] #[kani::stub(std::fmt::format, crate::stubs::fmt_stub)] c08_multm7x_i8 => multm7x_i8;
    #[kani::unwind(3)] #[kani::stub(std::fmt::format, crate::stubs::fmt_stub)] c08_mult3_i16 => mult3_i16;
    #[kani::unwind(3)] #[kani::stub(std::fmt::format, crate::stubs::fmt_stub)] c08_mult10_i16 => mult10_i16;
    #[kani::unwind(3)] #[kani::stub(std::fmt::format, crate::stubs::fmt_stub)] c08_multm7_i16 => multm7_i16;
    #[kani::unwind(3)] #[kani::stub(std::fmt::format, crate::stubs::fmt_stub)] c08_mult3x_i16 => mult3x_i16;
    #[kani::unwind(3)] #[kani::stub(std::fmt::format, crate::stubs::fmt_stub)] c08_mult10x_i16 => mult10x_i16;
    #[kani::unwind(3)] #[kani::stub(std::fmt::format, crate::stubs::fmt_stub)] c08_multm7x_i16 => multm7x_i16;
    #[kani::unwind(3)] #[kani::stub(std::fmt::format, crate::stubs::fmt_stub)] c08_mult3_i32 => mult3_i32;
    #[kani::unwind(3)] #[kani::stub(std::fmt::format, crate::stubs::fmt_stub)] c08_mult10_i32 => mult10_i32;
    #[kani::unwind(3)] #[kani::stub(std::fmt::format, crate::stubs::fmt_stub)] c08_multm7_i32 => multm7_i32;
    #[kani::unwind(3)] #[kani::stub(std::fmt::format, crate::stubs::fmt_stub)] c08_mult3x_i32 => mult3x_i32;
    #[kani::unwind(3)] #[kani::stub(std::fmt::format, crate::stubs::fmt_stub)] c08_mult10x_i32 => mult10x_i32;
    #[kani::unwind(3)] #[kani::stub(std::fmt::format, crate::stubs::fmt_stub)] c08_multm7x_i32 => multm7x_i32;
    #[kani::unwind(3)] #[kani::stub(std::fmt::format, crate::stubs::fmt_stub)] c08_mult3_i64 => mult3_i64;
    #[kani::unwind(3)] #[kani::stub(std::fmt::format, crate::stubs::fmt_stub)] c08_mult10_i64 => mult10_i64;
    #[kani::unwind(3)] #[kani::stub(std::fmt::format, crate::stubs::fmt_stub)] c08_multm7_i64 => multm7_i64;
    #[kani::unwind(3)] #[kani::stub(std::fmt::format, crate::stubs::fmt_stub)] c08_mult3x_i64 => mult3x_i64;
    #[kani::unwind(3)] #[kani::stub(std::fmt::format, crate::stubs::fmt_stub)] c08_mult10x_i64 => mult10x_i64;
    #[kani::unwind(3)] #[kani::stub(std::fmt::format, crate::stubs::fmt_stub)] c08_multm7x_i64 => multm7x_i64;
    #[kani::unwind(3)] #[kani::stub(std::fmt::format, crate::stubs::fmt_stub)] c08_mult3_isize => mult3_isize;
    #[kani::unwind(3)] #[kani::stub(std::fmt::format, crate::stubs::fmt_stub)] c08_mult10_isize => mult10_isize;
    #[kani::unwind(3)] #[kani::stub(std::fmt::format, crate::stubs::fmt_stub)] c08_multm7_isize => multm7_isize;
    #[kani::unwind(3)] #[kani::stub(std::fmt::format, crate::stubs::fmt_stub)] c08_mult3x_isize => mult3x_isize;
    #[kani::unwind(3)] #[kani::stub(std::fmt::format, crate::stubs::fmt_stub)] c08_mult10x_isize => mult10x_isize;
    #[kani::unwind(3)] #[kani::stub(std::fmt::format, crate::stubs::fmt_stub)] c08_multm7x_isize => multm7x_isize;
    #[kani::unwind(3)] #[kani::stub(std::fmt::format, crate::stubs::fmt_stub)] c08_mult3_u8 => mult3_u8;
    #[kani::unwind(3)] #[kani::stub(std::fmt::format, crate::stubs::fmt_stub)] c08_mult10_u8 => mult10_u8;
    #[kani::unwind(3)] #[kani::stub(std::fmt::format, crate::stubs::fmt_stub)] c08_multm7_u8 => multm7_u8;
    #[kani::unwind(3)] #[kani::stub(std::fmt::format, crate::stubs::fmt_stub)] c08_mult3x_u8 => mult3x_u8;
    #[kani::unwind(3)] #[kani::stub(std::fmt::format, crate::stubs::fmt_stub)] c08_mult10x_u8 => mult10x_u8;
    #[kani::unwind(3)] #[kani::stub(std::fmt::format, crate::stubs::fmt_stub)] c08_multm7x_u8 => multm7x_u8;
    #[kani::unwind(3)] #[kani::stub(std::fmt::format, crate::stubs::fmt_stub)] c08_mult3_u16 => mult3_u16;
    #[kani::unwind(3)] #[kani::stub(std::fmt::format, crate::stubs::fmt_stub)] c08_mult10_u16 => mult10_u16;
    #[kani::unwind(3)] #[kani::stub(std::fmt::format, crate::stubs::fmt_stub)] c08_multm7_u16 => multm7_u16;
    #[kani::unwind(3)] #[kani::stub(std::fmt::format, crate::stubs::fmt_stub)] c08_mult3x_u16 => mult3x_u16;
    #[kani::unwind(3)] #[kani::stub(std::fmt::format, crate::stubs::fmt_stub)] c08_mult10x_u16 => mult10x_u16;
    #[kani::unwind(3)] #[kani::stub(std::fmt::format, crate::stubs::fmt_stub)] c08_multm7x_u16 => multm7x_u16;
    #[kani::unwind(3)] #[kani::stub(std::fmt::format, crate::stubs::fmt_stub)] c08_mult3_u32 => mult3_u32;
    #[kani::unwind(3)] #[kani::stub(std::fmt::format, crate::stubs::fmt_stub)] c08_mult10_u32 => mult10_u32;
    #[kani::unwind(3)] #[kani::stub(std::fmt::format, crate::stubs::fmt_stub)] c08_multm7_u32 => multm7_u32;
    #[kani::unwind(3)] #[kani::stub(std::fmt::format, crate::stubs::fmt_stub)] c08_mult3x_u32 => mult3x_u32;
    #[kani::unwind(3)] #[kani::stub(std::fmt::format, crate::stubs::fmt_stub)] c08_mult10x_u32 => mult10x_u32;
    #[kani::unwind(3)] #[kani::stub(std::fmt::format, crate::stubs::fmt_stub)] c08_multm7x_u32 => multm7x_u32;
    #[kani::unwind(3)] #[kani::stub(std::fmt::format, crate::stubs::fmt_stub)] c08_mult3_u64 => mult3_u64;
    #[kani::unwind(3)] #[kani::stub(std::fmt::format, crate::stubs::fmt_stub)] c08_mult10_u64 => mult10_u64;
    #[kani::unwind(3)] #[kani::stub(std::fmt::format, crate::stubs::fmt_stub)] c08_multm7_u64 => multm7_u64;
    #[kani::unwind(3)] #[kani::stub(std::fmt::format, crate::stubs::fmt_stub)] c08_mult3x_u64 => mult3x_u64;
    #[kani::unwind(3)] #[kani::stub(std::fmt::format, crate::stubs::fmt_stub)] c08_mult10x_u64 => mult10x_u64;
    #[kani::unwind(3)] #[kani::stub(std::fmt::format, crate::stubs::fmt_stub)] c08_multm7x_u64 => multm7x_u64;
    #[kani::unwind(3)] #[kani::stub(std::fmt::format, crate::stubs::fmt_stub)] c08_mult3_usize => mult3_usize;
    #[kani::unwind(3)] #[kani::stub(std::fmt::format, crate::stubs::fmt_stub)] c08_mult10_usize => mult10_usize;
    #[kani::unwind(3)] #[kani::stub(std::fmt::format, crate::stubs::fmt_stub)] c08_multm7_usize => multm7_usize;
    #[kani::unwind(3)] #[kani::stub(std::fmt::format, crate::stubs::fmt_stub)] c08_mult3x_usize => mult3x_usize;
    #[kani::unwind(3)] #[kani::stub(std::fmt::format, crate::stubs::fmt_stub)] c08_mult10x_usize => mult10x_usize;
    #[kani::unwind(3)] #[kani::stub(std::fmt::format, crate::stubs::fmt_stub)] c08_multm7x_usize => multm7x_usize;
    #[kani::unwind(3)] #[kani::stub(std::fmt::format, crate::stubs::fmt_stub)] c08_mult_any_i8 => mult_any_i8;
    #[kani::unwind(3)] #[kani::stub(std::fmt::format, crate::stubs::fmt_stub)] c08_mult_any_u8 => mult_any_u8;
    #[kani::unwind(6)] #[kani::stub(std::fmt::format, crate::stubs::fmt_stub)] #[kani::stub(core::str::count::do_count_chars, crate::stubs::do_count_chars_unreachable)] c08_str_lengths0 => str_lengths0;
    #[kani::unwind(6)] #[kani::stub(std::fmt::format, crate::stubs::fmt_stub)] #[kani::stub(core::str::count::do_count_chars, crate::stubs::do_count_chars_unreachable)] c08_str_lengths1 => str_lengths1;
    #[kani::unwind(6)] #[kani::stub(std::fmt::format, crate::stubs::fmt_stub)] #[kani::stub(core::str::count::do_count_chars, crate::stubs::do_count_chars_unreachable)] c08_str_lengths2 => str_lengths2;
    #[kani::unwind(6)] #[kani::stub(std::fmt::format, crate::stubs::fmt_stub)] #[kani::stub(core::str::count::do_count_chars, crate::stubs::do_count_chars_unreachable)] c08_str_lengths3 => str_lengths3;
    #[kani::unwind(6)] #[kani::stub(std::fmt::format, crate::stubs::fmt_stub)] #[kani::stub(core::str::count::do_count_chars, crate::stubs::do_count_chars_unreachable)] c08_str_lengths4 => str_lengths4;
    #[kani::unwind(5)] #[kani::stub(std::fmt::format, crate::stubs::fmt_stub)] c08_items => items;
}
