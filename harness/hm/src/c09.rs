//! C09 — strict validation: the two unit-level mechanisms in reach.
//! Real code: `VisitorNil::with`, `VisitorCons` (src/validation/visitor.rs) – the combinator
//! `check_rules` uses to run all 22 rules in one walk – and `MetaTypeName::is_subtype`
//! (src/registry/mod.rs), the variable-usage compatibility relation.
use async_graphql::parser::types::*;
use async_graphql::registry::{MetaTypeName, Registry};
use async_graphql::verif_hooks::validation::{cons_invoke, Counters, Fixtures, N_CALLBACKS};
use async_graphql::{Name, Pos, Positioned};
use async_graphql_value::Value;

use crate::vsrc::Src;

fn p<T>(t: T) -> Positioned<T> {
    Positioned::new(t, Pos::default())
}

fn field() -> Field {
    Field {
        alias: None,
        name: p(Name::new("f")),
        arguments: Vec::new(),
        directives: Vec::new(),
        selection_set: p(SelectionSet { items: Vec::new() }),
    }
}

fn fixtures() -> Fixtures {
    let op = || OperationDefinition {
        ty: OperationType::Query,
        variable_definitions: Vec::new(),
        directives: Vec::new(),
        selection_set: p(SelectionSet { items: Vec::new() }),
    };
    Fixtures {
        doc: ExecutableDocument {
            operations: DocumentOperations::Single(p(op())),
            fragments: Default::default(),
        },
        name: p(Name::new("n")),
        operation: p(op()),
        fragment: p(FragmentDefinition {
            type_condition: p(TypeCondition { on: p(Name::new("T")) }),
            directives: Vec::new(),
            selection_set: p(SelectionSet { items: Vec::new() }),
        }),
        variable: p(VariableDefinition {
            name: p(Name::new("v")),
            var_type: p(Type { base: BaseType::Named(Name::new("Int")), nullable: true }),
            directives: Vec::new(),
            default_value: None,
        }),
        directive: p(Directive { name: p(Name::new("d")), arguments: Vec::new() }),
        value: p(Value::Null),
        selection_set: p(SelectionSet { items: Vec::new() }),
        selection: p(Selection::Field(p(field()))),
        field: p(field()),
        spread: p(FragmentSpread { fragment_name: p(Name::new("F")), directives: Vec::new() }),
        inline: p(InlineFragment {
            type_condition: None,
            directives: Vec::new(),
            selection_set: p(SelectionSet { items: Vec::new() }),
        }),
    }
}

const CALLBACK_NAMES: [&str; 24] = [
    "enter_document", "exit_document", "enter_operation_definition", "exit_operation_definition",
    "enter_fragment_definition", "exit_fragment_definition", "enter_variable_definition",
    "exit_variable_definition", "enter_directive", "exit_directive", "enter_argument", "exit_argument",
    "enter_selection_set", "exit_selection_set", "enter_selection", "exit_selection", "enter_field",
    "exit_field", "enter_fragment_spread", "exit_fragment_spread", "enter_inline_fragment",
    "exit_inline_fragment", "enter_input_value", "exit_input_value",
];

/// Invoking ANY callback of the Visitor trait on `VisitorNil.with(a).with(b).with(c)` invokes
/// exactly that callback exactly once on each of a, b and c (so every rule composed by
/// `check_rules` sees every event of the walk).
fn cons_forwards<S: Src, const LO: usize, const HI: usize>(s: &mut S) {
    let which = s.below(24);
    s.assume(which >= LO && which < HI);
    let fx = std::mem::ManuallyDrop::new(fixtures());
    let reg = std::mem::ManuallyDrop::new(Registry::default());
    let a = Counters::new([0; N_CALLBACKS]);
    let b = Counters::new([0; N_CALLBACKS]);
    let c = Counters::new([0; N_CALLBACKS]);
    cons_invoke(&reg, &fx, which, &a, &b, &c);
    cover!(which == LO, "first callback of the range");
    cover!(which == HI - 1, "last callback of the range");
    let (ca, cb, cc) = (a.get(), b.get(), c.get());
    let mut ok = true;
    let mut i = 0;
    while i < N_CALLBACKS {
        let want = if i == which { 1 } else { 0 };
        if ca[i] != want || cb[i] != want || cc[i] != want {
            ok = false;
        }
        i += 1;
    }
    if !ok {
        s.key(if which >= 22 { "input-value-callbacks-not-forwarded" } else { "other-callback" });
        #[cfg(not(kani))]
        println!("callback {} not forwarded exactly once to every composed visitor", CALLBACK_NAMES[which]);
    }
    assert!(ok, "composite visitor does not forward the callback exactly once to each member");
}

pub fn cons_forwards_structure<S: Src>(s: &mut S) { cons_forwards::<S, 0, 12>(s) }
pub fn cons_forwards_selection<S: Src>(s: &mut S) { cons_forwards::<S, 12, 22>(s) }
pub fn cons_forwards_input_value<S: Src>(s: &mut S) { cons_forwards::<S, 22, 24>(s) }

// ----------------------------------------------------------------------------------------
// Type compatibility (spec: AreTypesCompatible(variableType, locationType)).

/// Structural description of a type: up to 3 wrappers from the outside in (1 = NonNull,
/// 2 = List, 0 = none) around a name.
#[derive(Clone, Copy)]
pub struct Ty {
    pub text: &'static str,
    pub w: [u8; 4],
    pub name: u8,
}
macro_rules! ty {
    ($text:literal, [$($w:expr),*], $n:expr) => { Ty { text: $text, w: [$($w),*], name: $n } };
}
/// Every type expression with at most one list level over names {A, B}, plus the two-level lists.
pub const TYPES: [Ty; 18] = [
    ty!("nZ", [0, 0, 0, 0], 0), ty!("nZ!", [1, 0, 0, 0], 0), ty!("[nZ]", [2, 0, 0, 0], 0), ty!("[nZ]!", [1, 2, 0, 0], 0),
    ty!("[nZ!]", [2, 1, 0, 0], 0), ty!("[nZ!]!", [1, 2, 1, 0], 0), ty!("[[nZ]]", [2, 2, 0, 0], 0), ty!("[[nZ]!]", [2, 1, 2, 0], 0),
    ty!("[[nZ!]]!", [1, 2, 2, 1], 0),
    ty!("nZ", [0, 0, 0, 0], 1), ty!("nZ!", [1, 0, 0, 0], 1), ty!("[nZ]", [2, 0, 0, 0], 1), ty!("[nZ]!", [1, 2, 0, 0], 1),
    ty!("[nZ!]", [2, 1, 0, 0], 1), ty!("[nZ!]!", [1, 2, 1, 0], 1), ty!("[[nZ]]", [2, 2, 0, 0], 1), ty!("[[nZ]!]", [2, 1, 2, 0], 1),
    ty!("[[nZ!]]!", [1, 2, 2, 1], 1),
];

/// Reference: AreTypesCompatible(variable type v, location type l) from the GraphQL spec
/// (section 5.8.5), on the structural descriptions; `vi`/`li` index the next wrapper.
pub fn compatible(v: &Ty, mut vi: usize, l: &Ty, mut li: usize) -> bool {
    let mut steps = 0;
    while steps < 5 {
        let vw = if vi < 4 { v.w[vi] } else { 0 };
        let lw = if li < 4 { l.w[li] } else { 0 };
        if lw == 1 {
            if vw != 1 {
                return false;
            }
            vi += 1;
            li += 1;
        } else if vw == 1 {
            vi += 1;
        } else if lw == 2 {
            if vw != 2 {
                return false;
            }
            vi += 1;
            li += 1;
        } else if vw == 2 {
            return false;
        } else {
            return v.name == l.name;
        }
        steps += 1;
    }
    false
}

/// Copies the text of a type into a buffer. Names have two characters: the first is replaced by
/// the solver-chosen `name` byte, the last is the concrete 'Z' (so that the real code's tests on
/// the last character of a type string – `!`, `]` – stay concrete and only the final name
/// comparison is symbolic).
fn render(t: &Ty, name: u8, buf: &mut [u8; 10]) -> usize {
    let b = t.text.as_bytes();
    macro_rules! put {
        ($i:expr) => {
            if $i < b.len() {
                buf[$i] = if b[$i] == b'n' { name } else { b[$i] };
            }
        };
    }
    put!(0);
    put!(1);
    put!(2);
    put!(3);
    put!(4);
    put!(5);
    put!(6);
    put!(7);
    put!(8);
    put!(9);
    b.len()
}

/// `location.is_subtype(variable)` (how `VariableInAllowedPosition` asks) equals the spec's
/// AreTypesCompatible: one harness per pair of shapes (I, J) in 0..9 x 0..9 (shapes concrete so
/// that the string slicing stays concrete); both names are chosen by the solver from {A, B}.
fn type_compat<S: Src, const I: usize, const J: usize>(s: &mut S) {
    let ln = if s.bool() { b'a' } else { b'b' };
    let vn = if s.bool() { b'a' } else { b'b' };
    let mut lb = [0u8; 10];
    let llen = render(&TYPES[I], ln, &mut lb);
    let ltext: &str = unsafe { std::str::from_utf8_unchecked(&lb[..llen]) };
    let mut vb = [0u8; 10];
    let vlen = render(&TYPES[J], vn, &mut vb);
    let vtext: &str = unsafe { std::str::from_utf8_unchecked(&vb[..vlen]) };
    let loc = Ty { text: "", w: TYPES[I].w, name: ln };
    let var = Ty { text: "", w: TYPES[J].w, name: vn };
    let want = compatible(&var, 0, &loc, 0);
    let got = MetaTypeName::create(ltext).is_subtype(&MetaTypeName::create(vtext));
    cover!(ln == vn, "same name");
    cover!(ln != vn, "different names");
    if got != want {
        s.key(if loc.w[0] == 2 && var.w[0] == 1 && var.w[1] == 2 { "nonnull-list-into-list" } else { "other" });
        #[cfg(not(kani))]
        println!("location {} variable {}: is_subtype = {}, spec = {}", ltext, vtext, got, want);
    }
    assert!(got == want, "is_subtype disagrees with the spec's AreTypesCompatible");
}
pub fn type_compat_0_0<S: Src>(s: &mut S) { type_compat::<S, 0, 0>(s) }
pub fn type_compat_0_1<S: Src>(s: &mut S) { type_compat::<S, 0, 1>(s) }
pub fn type_compat_0_2<S: Src>(s: &mut S) { type_compat::<S, 0, 2>(s) }
pub fn type_compat_0_3<S: Src>(s: &mut S) { type_compat::<S, 0, 3>(s) }
pub fn type_compat_0_4<S: Src>(s: &mut S) { type_compat::<S, 0, 4>(s) }
pub fn type_compat_0_5<S: Src>(s: &mut S) { type_compat::<S, 0, 5>(s) }
pub fn type_compat_0_6<S: Src>(s: &mut S) { type_compat::<S, 0, 6>(s) }
pub fn type_compat_0_7<S: Src>(s: &mut S) { type_compat::<S, 0, 7>(s) }
pub fn type_compat_0_8<S: Src>(s: &mut S) { type_compat::<S, 0, 8>(s) }
pub fn type_compat_1_0<S: Src>(s: &mut S) { type_compat::<S, 1, 0>(s) }
pub fn type_compat_1_1<S: Src>(s: &mut S) { type_compat::<S, 1, 1>(s) }
pub fn type_compat_1_2<S: Src>(s: &mut S) { type_compat::<S, 1, 2>(s) }
pub fn type_compat_1_3<S: Src>(s: &mut S) { type_compat::<S, 1, 3>(s) }
pub fn type_compat_1_4<S: Src>(s: &mut S) { type_compat::<S, 1, 4>(s) }
pub fn type_compat_1_5<S: Src>(s: &mut S) { type_compat::<S, 1, 5>(s) }
pub fn type_compat_1_6<S: Src>(s: &mut S) { type_compat::<S, 1, 6>(s) }
pub fn type_compat_1_7<S: Src>(s: &mut S) { type_compat::<S, 1, 7>(s) }
pub fn type_compat_1_8<S: Src>(s: &mut S) { type_compat::<S, 1, 8>(s) }
pub fn type_compat_2_0<S: Src>(s: &mut S) { type_compat::<S, 2, 0>(s) }
pub fn type_compat_2_1<S: Src>(s: &mut S) { type_compat::<S, 2, 1>(s) }
pub fn type_compat_2_2<S: Src>(s: &mut S) { type_compat::<S, 2, 2>(s) }
pub fn type_compat_2_3<S: Src>(s: &mut S) { type_compat::<S, 2, 3>(s) }
pub fn type_compat_2_4<S: Src>(s: &mut S) { type_compat::<S, 2, 4>(s) }
pub fn type_compat_2_5<S: Src>(s: &mut S) { type_compat::<S, 2, 5>(s) }
pub fn type_compat_2_6<S: Src>(s: &mut S) { type_compat::<S, 2, 6>(s) }
pub fn type_compat_2_7<S: Src>(s: &mut S) { type_compat::<S, 2, 7>(s) }
pub fn type_compat_2_8<S: Src>(s: &mut S) { type_compat::<S, 2, 8>(s) }
pub fn type_compat_3_0<S: Src>(s: &mut S) { type_compat::<S, 3, 0>(s) }
pub fn type_compat_3_1<S: Src>(s: &mut S) { type_compat::<S, 3, 1>(s) }
pub fn type_compat_3_2<S: Src>(s: &mut S) { type_compat::<S, 3, 2>(s) }
pub fn type_compat_3_3<S: Src>(s: &mut S) { type_compat::<S, 3, 3>(s) }
pub fn type_compat_3_4<S: Src>(s: &mut S) { type_compat::<S, 3, 4>(s) }
pub fn type_compat_3_5<S: Src>(s: &mut S) { type_compat::<S, 3, 5>(s) }
pub fn type_compat_3_6<S: Src>(s: &mut S) { type_compat::<S, 3, 6>(s) }
pub fn type_compat_3_7<S: Src>(s: &mut S) { type_compat::<S, 3, 7>(s) }
pub fn type_compat_3_8<S: Src>(s: &mut S) { type_compat::<S, 3, 8>(s) }
pub fn type_compat_4_0<S: Src>(s: &mut S) { type_compat::<S, 4, 0>(s) }
pub fn type_compat_4_1<S: Src>(s: &mut S) { type_compat::<S, 4, 1>(s) }
pub fn type_compat_4_2<S: Src>(s: &mut S) { type_compat::<S, 4, 2>(s) }
pub fn type_compat_4_3<S: Src>(s: &mut S) { type_compat::<S, 4, 3>(s) }
pub fn type_compat_4_4<S: Src>(s: &mut S) { type_compat::<S, 4, 4>(s) }
pub fn type_compat_4_5<S: Src>(s: &mut S) { type_compat::<S, 4, 5>(s) }
pub fn type_compat_4_6<S: Src>(s: &mut S) { type_compat::<S, 4, 6>(s) }
pub fn type_compat_4_7<S: Src>(s: &mut S) { type_compat::<S, 4, 7>(s) }
pub fn type_compat_4_8<S: Src>(s: &mut S) { type_compat::<S, 4, 8>(s) }
pub fn type_compat_5_0<S: Src>(s: &mut S) { type_compat::<S, 5, 0>(s) }
pub fn type_compat_5_1<S: Src>(s: &mut S) { type_compat::<S, 5, 1>(s) }
pub fn type_compat_5_2<S: Src>(s: &mut S) { type_compat::<S, 5, 2>(s) }
pub fn type_compat_5_3<S: Src>(s: &mut S) { type_compat::<S, 5, 3>(s) }
pub fn type_compat_5_4<S: Src>(s: &mut S) { type_compat::<S, 5, 4>(s) }
pub fn type_compat_5_5<S: Src>(s: &mut S) { type_compat::<S, 5, 5>(s) }
pub fn type_compat_5_6<S: Src>(s: &mut S) { type_compat::<S, 5, 6>(s) }
pub fn type_compat_5_7<S: Src>(s: &mut S) { type_compat::<S, 5, 7>(s) }
pub fn type_compat_5_8<S: Src>(s: &mut S) { type_compat::<S, 5, 8>(s) }
pub fn type_compat_6_0<S: Src>(s: &mut S) { type_compat::<S, 6, 0>(s) }
pub fn type_compat_6_1<S: Src>(s: &mut S) { type_compat::<S, 6, 1>(s) }
pub fn type_compat_6_2<S: Src>(s: &mut S) { type_compat::<S, 6, 2>(s) }
pub fn type_compat_6_3<S: Src>(s: &mut S) { type_compat::<S, 6, 3>(s) }
pub fn type_compat_6_4<S: Src>(s: &mut S) { type_compat::<S, 6, 4>(s) }
pub fn type_compat_6_5<S: Src>(s: &mut S) { type_compat::<S, 6, 5>(s) }
pub fn type_compat_6_6<S: Src>(s: &mut S) { type_compat::<S, 6, 6>(s) }
pub fn type_compat_6_7<S: Src>(s: &mut S) { type_compat::<S, 6, 7>(s) }
pub fn type_compat_6_8<S: Src>(s: &mut S) { type_compat::<S, 6, 8>(s) }
pub fn type_compat_7_0<S: Src>(s: &mut S) { type_compat::<S, 7, 0>(s) }
pub fn type_compat_7_1<S: Src>(s: &mut S) { type_compat::<S, 7, 1>(s) }
pub fn type_compat_7_2<S: Src>(s: &mut S) { type_compat::<S, 7, 2>(s) }
pub fn type_compat_7_3<S: Src>(s: &mut S) { type_compat::<S, 7, 3>(s) }
pub fn type_compat_7_4<S: Src>(s: &mut S) { type_compat::<S, 7, 4>(s) }
pub fn type_compat_7_5<S: Src>(s: &mut S) { type_compat::<S, 7, 5>(s) }
pub fn type_compat_7_6<S: Src>(s: &mut S) { type_compat::<S, 7, 6>(s) }
pub fn type_compat_7_7<S: Src>(s: &mut S) { type_compat::<S, 7, 7>(s) }
pub fn type_compat_7_8<S: Src>(s: &mut S) { type_compat::<S, 7, 8>(s) }
pub fn type_compat_8_0<S: Src>(s: &mut S) { type_compat::<S, 8, 0>(s) }
pub fn type_compat_8_1<S: Src>(s: &mut S) { type_compat::<S, 8, 1>(s) }
pub fn type_compat_8_2<S: Src>(s: &mut S) { type_compat::<S, 8, 2>(s) }
pub fn type_compat_8_3<S: Src>(s: &mut S) { type_compat::<S, 8, 3>(s) }
pub fn type_compat_8_4<S: Src>(s: &mut S) { type_compat::<S, 8, 4>(s) }
pub fn type_compat_8_5<S: Src>(s: &mut S) { type_compat::<S, 8, 5>(s) }
pub fn type_compat_8_6<S: Src>(s: &mut S) { type_compat::<S, 8, 6>(s) }
pub fn type_compat_8_7<S: Src>(s: &mut S) { type_compat::<S, 8, 7>(s) }
pub fn type_compat_8_8<S: Src>(s: &mut S) { type_compat::<S, 8, 8>(s) }

harnesses! {
    #[kani::unwind(30)] #[kani::stub(std::hash::RandomState::new, crate::stubs::rs_new)] c09_cons_forwards_structure => cons_forwards_structure;
    #[kani::unwind(30)] #[kani::stub(std::hash::RandomState::new, crate::stubs::rs_new)] c09_cons_forwards_selection => cons_forwards_selection;
    #[kani::unwind(30)] #[kani::stub(std::hash::RandomState::new, crate::stubs::rs_new)] c09_cons_forwards_input_value => cons_forwards_input_value;
    #[kani::unwind(5)] #[kani::stub(core::str::slice_error_fail, crate::stubs::slice_error_fail_stub)] c09_type_compat_0_0 => type_compat_0_0;
    #[kani::unwind(5)] #[kani::stub(core::str::slice_error_fail, crate::stubs::slice_error_fail_stub)] c09_type_compat_0_1 => type_compat_0_1;
    #[kani::unwind(5)] #[kani::stub(core::str::slice_error_fail, crate::stubs::slice_error_fail_stub)] c09_type_compat_0_2 => type_compat_0_2;
    #[kani::unwind(5)] #[kani::stub(core::str::slice_error_fail, crate::stubs::slice_error_fail_stub)] c09_type_compat_0_3 => type_compat_0_3;
    #[kani::unwind(5)] #[kani::stub(core::str::slice_error_fail, crate::stubs::slice_error_fail_stub)] c09_type_compat_0_4 => type_compat_0_4;
    #[kani::unwind(5)] #[kani::stub(core::str::slice_error_fail, crate::stubs::slice_error_fail_stub)] c09_type_compat_0_5 => type_compat_0_5;
    #[kani::unwind(5)] #[kani::stub(core::str::slice_error_fail, crate::stubs::slice_error_fail_stub)] c09_type_compat_0_6 => type_compat_0_6;
    #[kani::unwind(5)] #[kani::stub(core::str::slice_error_fail, crate::stubs::slice_error_fail_stub)] c09_type_compat_0_7 => type_compat_0_7;
    #[kani::unwind(5)] #[kani::stub(core::str::slice_error_fail, crate::stubs::slice_error_fail_stub)] c09_type_compat_0_8 => type_compat_0_8;
    #[kani::unwind(5)] #[kani::stub(core::str::slice_error_fail, crate::stubs::slice_error_fail_stub)] c09_type_compat_1_0 => type_compat_1_0;
    #[kani::unwind(5)] #[kani::stub(core::str::slice_error_fail, crate::stubs::slice_error_fail_stub)] c09_type_compat_1_1 => type_compat_1_1;
    #[kani::unwind(5)] #[kani::stub(core::str::slice_error_fail, crate::stubs::slice_error_fail_stub)] c09_type_compat_1_2 => type_compat_1_2;
    #[kani::unwind(5)] #[kani::stub(core::str::slice_error_fail, crate::stubs::slice_error_fail_stub)] c09_type_compat_1_3 => type_compat_1_3;
    #[kani::unwind(5)] #[kani::stub(core::str::slice_error_fail, crate::stubs::slice_error_fail_stub)] c09_type_compat_1_4 => type_compat_1_4;
    #[kani::unwind(5)] #[kani::stub(core::str::slice_error_fail, crate::stubs::slice_error_fail_stub)] c09_type_compat_1_5 => type_compat_1_5;
    #[kani::unwind(5)] #[kani::stub(core::str::slice_error_fail, crate::stubs::slice_error_fail_stub)] c09_type_compat_1_6 => type_compat_1_6;
    #[kani::unwind(5)] #[kani::stub(core::str::slice_error_fail, crate::stubs::slice_error_fail_stub)] c09_type_compat_1_7 => type_compat_1_7;
    #[kani::unwind(5)] #[kani::stub(core::str::slice_error_fail, crate::stubs::slice_error_fail_stub)] c09_type_compat_1_8 => type_compat_1_8;
    #[kani::unwind(5)] #[kani::stub(core::str::slice_error_fail, crate::stubs::slice_error_fail_stub)] c09_type_compat_2_0 => type_compat_2_0;
    #[kani::unwind(5)] #[kani::stub(core::str::slice_error_fail, crate::stubs::slice_error_fail_stub)] c09_type_compat_2_1 => type_compat_2_1;
    #[kani::unwind(5)] #[kani::stub(core::str::slice_error_fail, crate::stubs::slice_error_fail_stub)] c09_type_compat_2_2 => type_compat_2_2;
    #[kani::unwind(5)] #[kani::stub(core::str::slice_error_fail, crate::stubs::slice_error_fail_stub)] c09_type_compat_2_3 => type_compat_2_3;
    #[kani::unwind(5)] #[kani::stub(core::str::slice_error_fail, crate::stubs::slice_error_fail_stub)] c09_type_compat_2_4 => type_compat_2_4;
    #[kani::unwind(5)] #[kani::stub(core::str::slice_error_fail, crate::stubs::slice_error_fail_stub)] c09_type_compat_2_5 => type_compat_2_5;
    #[kani::unwind(5)] #[kani::stub(core::str::slice_error_fail, crate::stubs::slice_error_fail_stub)] c09_type_compat_2_6 => type_compat_2_6;
    #[kani::unwind(5)] #[kani::stub(core::str::slice_error_fail, crate::stubs::slice_error_fail_stub)] c09_type_compat_2_7 => type_compat_2_7;
    #[kani::unwind(5)] #[kani::stub(core::str::slice_error_fail, crate::stubs::slice_error_fail_stub)] c09_type_compat_2_8 => type_compat_2_8;
    #[kani::unwind(5)] #[kani::stub(core::str::slice_error_fail, crate::stubs::slice_error_fail_stub)] c09_type_compat_3_0 => type_compat_3_0;
    #[kani::unwind(5)] #[kani::stub(core::str::slice_error_fail, crate::stubs::slice_error_fail_stub)] c09_type_compat_3_1 => type_compat_3_1;
    #[kani::unwind(5)] #[kani::stub(core::str::slice_error_fail, crate::stubs::slice_error_fail_stub)] c09_type_compat_3_2 => type_compat_3_2;
    #[kani::unwind(5)] #[kani::stub(core::str::slice_error_fail, crate::stubs::slice_error_fail_stub)] c09_type_compat_3_3 => type_compat_3_3;
    #[kani::unwind(5)] #[kani::stub(core::str::slice_error_fail, crate::stubs::slice_error_fail_stub)] c09_type_compat_3_4 => type_compat_3_4;
    #[kani::unwind(5)] #[kani::stub(core::str::slice_error_fail, crate::stubs::slice_error_fail_stub)] c09_type_compat_3_5 => type_compat_3_5;
    #[kani::unwind(5)] #[kani::stub(core::str::slice_error_fail, crate::stubs::slice_error_fail_stub)] c09_type_compat_3_6 => type_compat_3_6;
    #[kani::unwind(5)] #[kani::stub(core::str::slice_error_fail, crate::stubs::slice_error_fail_stub)] c09_type_compat_3_7 => type_compat_3_7;
    #[kani::unwind(5)] #[kani::stub(core::str::slice_error_fail, crate::stubs::slice_error_fail_stub)] c09_type_compat_3_8 => type_compat_3_8;
    #[kani::unwind(5)] #[kani::stub(core::str::slice_error_fail, crate::stubs::slice_error_fail_stub)] c09_type_compat_4_0 => type_compat_4_0;
    #[kani::unwind(5)] #[kani::stub(core::str::slice_error_fail, crate::stubs::slice_error_fail_stub)] c09_type_compat_4_1 => type_compat_4_1;
    #[kani::unwind(5)] #[kani::stub(core::str::slice_error_fail, crate::stubs::slice_error_fail_stub)] c09_type_compat_4_2 => type_compat_4_2;
    #[kani::unwind(5)] #[kani::stub(core::str::slice_error_fail, crate::stubs::slice_error_fail_stub)] c09_type_compat_4_3 => type_compat_4_3;
    #[kani::unwind(5)] #[kani::stub(core::str::slice_error_fail, crate::stubs::slice_error_fail_stub)] c09_type_compat_4_4 => type_compat_4_4;
    #[kani::unwind(5)] #[kani::stub(core::str::slice_error_fail, crate::stubs::slice_error_fail_stub)] c09_type_compat_4_5 => type_compat_4_5;
    #[kani::unwind(5)] #[kani::stub(core::str::slice_error_fail, crate::stubs::slice_error_fail_stub)] c09_type_compat_4_6 => type_compat_4_6;
    #[kani::unwind(5)] #[kani::stub(core::str::slice_error_fail, crate::stubs::slice_error_fail_stub)] c09_type_compat_4_7 => type_compat_4_7;
    #[kani::unwind(5)] #[kani::stub(core::str::slice_error_fail, crate::stubs::slice_error_fail_stub)] c09_type_compat_4_8 => type_compat_4_8;
    #[kani::unwind(5)] #[kani::stub(core::str::slice_error_fail, crate::stubs::slice_error_fail_stub)] c09_type_compat_5_0 => type_compat_5_0;
    #[kani::unwind(5)] #[kani::stub(core::str::slice_error_fail, crate::stubs::slice_error_fail_stub)] c09_type_compat_5_1 => type_compat_5_1;
    #[kani::unwind(5)] #[kani::stub(core::str::slice_error_fail, crate::stubs::slice_error_fail_stub)] c09_type_compat_5_2 => type_compat_5_2;
    #[kani::unwind(5)] #[kani::stub(core::str::slice_error_fail, crate::stubs::slice_error_fail_stub)] c09_type_compat_5_3 => type_compat_5_3;
    #[kani::unwind(5)] #[kani::stub(core::str::slice_error_fail, crate::stubs::slice_error_fail_stub)] c09_type_compat_5_4 => type_compat_5_4;
    #[kani::unwind(5)] #[kani::stub(core::str::slice_error_fail, crate::stubs::slice_error_fail_stub)] c09_type_compat_5_5 => type_compat_5_5;
    #[kani::unwind(5)] #[kani::stub(core::str::slice_error_fail, crate::stubs::slice_error_fail_stub)] c09_type_compat_5_6 => type_compat_5_6;
    #[kani::unwind(5)] #[kani::stub(core::str::slice_error_fail, crate::stubs::slice_error_fail_stub)] c09_type_compat_5_7 => type_compat_5_7;
    #[kani::unwind(5)] #[kani::stub(core::str::slice_error_fail, crate::stubs::slice_error_fail_stub)] c09_type_compat_5_8 => type_compat_5_8;
    #[kani::unwind(5)] #[kani::stub(core::str::slice_error_fail, crate::stubs::slice_error_fail_stub)] c09_type_compat_6_0 => type_compat_6_0;
    #[kani::unwind(5)] #[kani::stub(core::str::slice_error_fail, crate::stubs::slice_error_fail_stub)] c09_type_compat_6_1 => type_compat_6_1;
    #[kani::unwind(5)] #[kani::stub(core::str::slice_error_fail, crate::stubs::slice_error_fail_stub)] c09_type_compat_6_2 => type_compat_6_2;
    #[kani::unwind(5)] #[kani::stub(core::str::slice_error_fail, crate::stubs::slice_error_fail_stub)] c09_type_compat_6_3 => type_compat_6_3;
    #[kani::unwind(5)] #[kani::stub(core::str::slice_error_fail, crate::stubs::slice_error_fail_stub)] c09_type_compat_6_4 => type_compat_6_4;
    #[kani::unwind(5)] #[kani::stub(core::str::slice_error_fail, crate::stubs::slice_error_fail_stub)] c09_type_compat_6_5 => type_compat_6_5;
    #[kani::unwind(5)] #[kani::stub(core::str::slice_error_fail, crate::stubs::slice_error_fail_stub)] c09_type_compat_6_6 => type_compat_6_6;
    #[kani::unwind(5)] #[kani::stub(core::str::slice_error_fail, crate::stubs::slice_error_fail_stub)] c09_type_compat_6_7 => type_compat_6_7;
    #[kani::unwind(5)] #[kani::stub(core::str::slice_error_fail, crate::stubs::slice_error_fail_stub)] c09_type_compat_6_8 => type_compat_6_8;
    #[kani::unwind(5)] #[kani::stub(core::str::slice_error_fail, crate::stubs::slice_error_fail_stub)] c09_type_compat_7_0 => type_compat_7_0;
    #[kani::unwind(5)] #[kani::stub(core::str::slice_error_fail, crate::stubs::slice_error_fail_stub)] c09_type_compat_7_1 => type_compat_7_1;
    #[kani::unwind(5)] #[kani::stub(core::str::slice_error_fail, crate::stubs::slice_error_fail_stub)] c09_type_compat_7_2 => type_compat_7_2;
    #[kani::unwind(5)] #[kani::stub(core::str::slice_error_fail, crate::stubs::slice_error_fail_stub)] c09_type_compat_7_3 => type_compat_7_3;
    #[kani::unwind(5)] #[kani::stub(core::str::slice_error_fail, crate::stubs::slice_error_fail_stub)] c09_type_compat_7_4 => type_compat_7_4;
    #[kani::unwind(5)] #[kani::stub(core::str::slice_error_fail, crate::stubs::slice_error_fail_stub)] c09_type_compat_7_5 => type_compat_7_5;
    #[kani::unwind(5)] #[kani::stub(core::str::slice_error_fail, crate::stubs::slice_error_fail_stub)] c09_type_compat_7_6 => type_compat_7_6;
    #[kani::unwind(5)] #[kani::stub(core::str::slice_error_fail, crate::stubs::slice_error_fail_stub)] c09_type_compat_7_7 => type_compat_7_7;
    #[kani::unwind(5)] #[kani::stub(core::str::slice_error_fail, crate::stubs::slice_error_fail_stub)] c09_type_compat_7_8 => type_compat_7_8;
    #[kani::unwind(5)] #[kani::stub(core::str::slice_error_fail, crate::stubs::slice_error_fail_stub)] c09_type_compat_8_0 => type_compat_8_0;
    #[kani::unwind(5)] #[kani::stub(core::str::slice_error_fail, crate::stubs::slice_error_fail_stub)] c09_type_compat_8_1 => type_compat_8_1;
    #[kani::unwind(5)] #[kani::stub(core::str::slice_error_fail, crate::stubs::slice_error_fail_stub)] c09_type_compat_8_2 => type_compat_8_2;
    #[kani::unwind(5)] #[kani::stub(core::str::slice_error_fail, crate::stubs::slice_error_fail_stub)] c09_type_compat_8_3 => type_compat_8_3;
    #[kani::unwind(5)] #[kani::stub(core::str::slice_error_fail, crate::stubs::slice_error_fail_stub)] c09_type_compat_8_4 => type_compat_8_4;
    #[kani::unwind(5)] #[kani::stub(core::str::slice_error_fail, crate::stubs::slice_error_fail_stub)] c09_type_compat_8_5 => type_compat_8_5;
    #[kani::unwind(5)] #[kani::stub(core::str::slice_error_fail, crate::stubs::slice_error_fail_stub)] c09_type_compat_8_6 => type_compat_8_6;
    #[kani::unwind(5)] #[kani::stub(core::str::slice_error_fail, crate::stubs::slice_error_fail_stub)] c09_type_compat_8_7 => type_compat_8_7;
    #[kani::unwind(5)] #[kani::stub(core::str::slice_error_fail, crate::stubs::slice_error_fail_stub)] c09_type_compat_8_8 => type_compat_8_8;
}
