//! C10 — depth, complexity, recursion and directive limits are enforced exactly.
//! Real code: `check_recursive_depth`, `check_max_directives` (src/schema.rs),
//! `DepthCalculate` / `ComplexityCalculate` (src/validation/visitors) composed as in
//! `check_rules`.
use std::mem::ManuallyDrop;

use async_graphql::parser::types::*;
use async_graphql::registry::Registry;
use async_graphql::verif_hooks::schema::{check_max_directives, check_recursive_depth};
use async_graphql::verif_hooks::validation::drive_depth_complexity;
use async_graphql::Positioned;

use crate::ast::*;
use crate::vsrc::Src;

/// A chain of wrappers around a leaf field; KINDS encodes the chain from the inside out, one
/// decimal digit per wrapper (1 = field with a sub-selection, 2 = inline fragment), so the
/// shape is concrete per harness. Nesting depth = number of wrappers W; the recursion limit L
/// (EVERY usize) rejects iff W > L.
fn rec_depth_chain<S: Src, const KINDS: usize>(s: &mut S) {
    let limit = s.usize();
    let mut items = vec![field("leaf", None, Vec::new(), Vec::new())];
    let mut k = KINDS;
    let mut w = 0;
    while k > 0 {
        items = if k % 10 == 1 { vec![field("f", None, Vec::new(), items)] } else { vec![inline(items)] };
        k /= 10;
        w += 1;
    }
    let doc = ManuallyDrop::new(query_doc(items));
    let r = ManuallyDrop::new(check_recursive_depth(&doc, limit));
    let ok = r.is_ok();
    cover!(limit == w, "limit equals the nesting");
    cover!(w > limit || w == 0, "nesting above the limit");
    assert!(ok == (w <= limit), "recursion limit: rejected iff nesting > limit");
}
pub fn rec_depth_chain_0<S: Src>(s: &mut S) { rec_depth_chain::<S, 0>(s) }
pub fn rec_depth_chain_f<S: Src>(s: &mut S) { rec_depth_chain::<S, 1>(s) }
pub fn rec_depth_chain_i<S: Src>(s: &mut S) { rec_depth_chain::<S, 2>(s) }
pub fn rec_depth_chain_fi<S: Src>(s: &mut S) { rec_depth_chain::<S, 12>(s) }
pub fn rec_depth_chain_if<S: Src>(s: &mut S) { rec_depth_chain::<S, 21>(s) }

/// A field carrying exactly D directives, directly or inside an inline fragment (NESTED):
/// the directive limit L (EVERY usize) rejects iff D > L.
fn max_directives<S: Src, const D: usize, const NESTED: bool>(s: &mut S) {
    let limit = s.usize();
    let mut dirs = Vec::new();
    if D >= 1 {
        dirs.push(directive("a"));
    }
    if D >= 2 {
        dirs.push(directive("b"));
    }
    let f = field("f", None, dirs, Vec::new());
    let items = if NESTED { vec![inline(vec![f])] } else { vec![f] };
    let doc = ManuallyDrop::new(query_doc(items));
    let r = ManuallyDrop::new(check_max_directives(&doc, limit));
    let ok = r.is_ok();
    cover!(limit == D, "limit equals the count");
    cover!(D > limit || D == 0, "count above the limit");
    assert!(ok == (D <= limit), "directive limit: rejected iff count > limit");
}
pub fn max_directives_0<S: Src>(s: &mut S) { max_directives::<S, 0, false>(s) }
pub fn max_directives_1<S: Src>(s: &mut S) { max_directives::<S, 1, false>(s) }
pub fn max_directives_2<S: Src>(s: &mut S) { max_directives::<S, 2, false>(s) }
pub fn max_directives_2n<S: Src>(s: &mut S) { max_directives::<S, 2, true>(s) }

/// The real depth and complexity visitors, composed as `check_rules` composes them, driven
/// by EVERY well-nested script of N field events: depth = maximum nesting, complexity =
/// number of fields (no custom complexity).
fn depth_complexity<S: Src, const N: usize>(s: &mut S) {
    let mut script = [false; N];
    let mut open: usize = 0;
    let mut depth_ref: usize = 0;
    let mut fields_ref: usize = 0;
    let mut i = 0;
    while i < N {
        let enter = s.bool();
        if !enter {
            s.assume(open > 0);
            open -= 1;
        } else {
            open += 1;
            fields_ref += 1;
            if open > depth_ref {
                depth_ref = open;
            }
        }
        script[i] = enter;
        i += 1;
    }
    s.assume(open == 0);
    let reg = ManuallyDrop::new(Registry::default());
    let doc = ManuallyDrop::new(query_doc(Vec::new()));
    let f: ManuallyDrop<Positioned<Field>> = ManuallyDrop::new(p(Field {
        alias: None,
        name: p(async_graphql::Name::new("f")),
        arguments: Vec::new(),
        directives: Vec::new(),
        selection_set: sset(Vec::new()),
    }));
    let (depth, complexity) = drive_depth_complexity(&reg, &doc, &f, &script);
    cover!(depth_ref == N / 2, "fully nested");
    cover!((depth_ref == 1 && N > 2) || N == 2, "flat siblings");
    assert!(depth == depth_ref, "depth = maximum field nesting");
    assert!(complexity == fields_ref, "complexity = number of fields");
}
pub fn depth_complexity2<S: Src>(s: &mut S) { depth_complexity::<S, 2>(s) }
pub fn depth_complexity4<S: Src>(s: &mut S) { depth_complexity::<S, 4>(s) }
pub fn depth_complexity6<S: Src>(s: &mut S) { depth_complexity::<S, 6>(s) }
pub fn depth_complexity8<S: Src>(s: &mut S) { depth_complexity::<S, 8>(s) }

harnesses! {
    #[kani::unwind(3)] #[kani::stub(std::fmt::format, crate::stubs::fmt_stub)] #[kani::stub(std::hash::RandomState::new, crate::stubs::rs_new)] c10_rec_depth_chain_0 => rec_depth_chain_0;
    #[kani::unwind(3)] #[kani::stub(std::fmt::format, crate::stubs::fmt_stub)] #[kani::stub(std::hash::RandomState::new, crate::stubs::rs_new)] c10_rec_depth_chain_f => rec_depth_chain_f;
    #[kani::unwind(3)] #[kani::stub(std::fmt::format, crate::stubs::fmt_stub)] #[kani::stub(std::hash::RandomState::new, crate::stubs::rs_new)] c10_rec_depth_chain_i => rec_depth_chain_i;
    #[kani::unwind(4)] #[kani::stub(std::fmt::format, crate::stubs::fmt_stub)] #[kani::stub(std::hash::RandomState::new, crate::stubs::rs_new)] c10_rec_depth_chain_fi => rec_depth_chain_fi;
    #[kani::unwind(4)] #[kani::stub(std::fmt::format, crate::stubs::fmt_stub)] #[kani::stub(std::hash::RandomState::new, crate::stubs::rs_new)] c10_rec_depth_chain_if => rec_depth_chain_if;
    #[kani::unwind(3)] #[kani::stub(std::fmt::format, crate::stubs::fmt_stub)] #[kani::stub(std::hash::RandomState::new, crate::stubs::rs_new)] c10_max_directives_0 => max_directives_0;
    #[kani::unwind(3)] #[kani::stub(std::fmt::format, crate::stubs::fmt_stub)] #[kani::stub(std::hash::RandomState::new, crate::stubs::rs_new)] c10_max_directives_1 => max_directives_1;
    #[kani::unwind(3)] #[kani::stub(std::fmt::format, crate::stubs::fmt_stub)] #[kani::stub(std::hash::RandomState::new, crate::stubs::rs_new)] c10_max_directives_2 => max_directives_2;
    #[kani::unwind(4)] #[kani::stub(std::fmt::format, crate::stubs::fmt_stub)] #[kani::stub(std::hash::RandomState::new, crate::stubs::rs_new)] c10_max_directives_2n => max_directives_2n;
    #[kani::unwind(8)] #[kani::stub(std::fmt::format, crate::stubs::fmt_stub)] #[kani::stub(std::hash::RandomState::new, crate::stubs::rs_new)] c10_depth_complexity2 => depth_complexity2;
    #[kani::unwind(8)] #[kani::stub(std::fmt::format, crate::stubs::fmt_stub)] #[kani::stub(std::hash::RandomState::new, crate::stubs::rs_new)] c10_depth_complexity4 => depth_complexity4;
    #[kani::unwind(8)] #[kani::stub(std::fmt::format, crate::stubs::fmt_stub)] #[kani::stub(std::hash::RandomState::new, crate::stubs::rs_new)] c10_depth_complexity6 => depth_complexity6;
    #[kani::unwind(10)] #[kani::stub(std::fmt::format, crate::stubs::fmt_stub)] #[kani::stub(std::hash::RandomState::new, crate::stubs::rs_new)] c10_depth_complexity8 => depth_complexity8;
}
