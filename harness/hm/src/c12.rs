//! C12 — no client input can crash the server: panic-freedom of kernels that receive
//! client-controlled values. Real code: `<Upload as InputType>::parse` (src/types/upload.rs) –
//! any String variable value reaches it when the argument type is Upload.
//! (The string decoders of the parser are decided under C13 and listed in C12's evidence.)
use async_graphql::{InputType, Upload, Value};

use crate::vsrc::Src;

/// Reference for `usize::from_str`: optional '+', then one or more decimal digits.
fn ref_usize(b: &[u8]) -> Option<usize> {
    if b.is_empty() {
        return None;
    }
    let mut i = 0;
    if b[0] == b'+' {
        if b.len() == 1 {
            return None;
        }
        i = 1;
    }
    let mut v: usize = 0;
    while i < b.len() {
        if b[i] < b'0' || b[i] > b'9' {
            return None;
        }
        v = v * 10 + (b[i] - b'0') as usize;
        i += 1;
    }
    Some(v)
}

/// `Upload::parse` on the internal marker followed by ANY L ASCII bytes never panics; it
/// succeeds iff the suffix denotes an index, and then yields that index.
fn upload_marker<S: Src, const L: usize>(s: &mut S) {
    const PREFIX: &[u8] = b"#__graphql_file__:";
    let mut v = Vec::with_capacity(PREFIX.len() + L);
    v.extend_from_slice(PREFIX);
    let mut suffix = [0u8; L];
    let mut i = 0;
    while i < L {
        suffix[i] = s.u8();
        s.assume(suffix[i] < 0x80);
        v.push(suffix[i]);
        i += 1;
    }
    let text = unsafe { String::from_utf8_unchecked(v) };
    let want = ref_usize(&suffix);
    cover!(want.is_some() || L == 0, "a well-formed index");
    cover!(want.is_none(), "a forged marker without an index");
    if want.is_none() {
        s.key("forged-upload-marker");
    }
    let r = <Upload as InputType>::parse(Some(Value::String(text)));
    match &r {
        Ok(u) => assert!(want == Some(**u), "marker accepted with a different index"),
        Err(_) => assert!(want.is_none(), "well-formed marker rejected"),
    }
    std::mem::forget(r);
}
pub fn upload_marker0<S: Src>(s: &mut S) { upload_marker::<S, 0>(s) }
pub fn upload_marker1<S: Src>(s: &mut S) { upload_marker::<S, 1>(s) }
pub fn upload_marker2<S: Src>(s: &mut S) { upload_marker::<S, 2>(s) }
pub fn upload_marker3<S: Src>(s: &mut S) { upload_marker::<S, 3>(s) }

/// Values of other kinds and strings without the marker are rejected without panicking.
pub fn upload_other<S: Src>(s: &mut S) {
    let b = s.bool();
    cover!(b, "true");
    macro_rules! rejects {
        ($v:expr) => {{
            let r = <Upload as InputType>::parse($v);
            assert!(r.is_err(), "a non-upload value was accepted");
            std::mem::forget(r);
        }};
    }
    rejects!(None);
    rejects!(Some(Value::Null));
    rejects!(Some(Value::Boolean(b)));
    rejects!(Some(Value::String(String::new())));
    let c = s.u8();
    s.assume(c < 0x80);
    let mut st = String::new();
    st.push(c as char);
    rejects!(Some(Value::String(st)));
    rejects!(Some(Value::List(Vec::new())));
}


/// `Upload::value` (the resolver-side lookup of a parsed upload index in the request's files)
/// for EVERY index, including forged ones: with no file in the request it returns an error
/// and never panics (no out-of-range index, no arithmetic overflow near usize::MAX).
/// The Context is hand-built through the verif-hooks constructors (empty registry).
pub fn upload_value_no_files<S: Src>(s: &mut S) {
    use std::mem::ManuallyDrop as MD;
    use async_graphql::parser::types::*;
    use async_graphql::registry::Registry;
    use async_graphql::verif_hooks::{query_env, schema_env};
    use crate::ast::p;
    let idx = s.usize();
    cover!(idx == usize::MAX, "largest index");
    cover!(idx == 0, "first index");
    let senv = MD::new(schema_env(Registry::default()));
    let op = p(OperationDefinition {
        ty: OperationType::Mutation,
        variable_definitions: Vec::new(),
        directives: Vec::new(),
        selection_set: p(SelectionSet { items: Vec::new() }),
    });
    let qenv = MD::new(query_env(&senv, async_graphql::Variables::default(), op, Vec::new()));
    let field = MD::new(p(Field {
        alias: None,
        name: p(async_graphql::Name::new("f")),
        arguments: Vec::new(),
        directives: Vec::new(),
        selection_set: p(SelectionSet { items: Vec::new() }),
    }));
    let ctx = MD::new(qenv.create_context(&senv, None, &*field, None));
    let r = MD::new(Upload(idx).value(&ctx));
    assert!(r.is_err(), "an upload index was resolved although the request carries no file");
}

harnesses! {
    #[kani::unwind(20)] #[kani::stub(std::fmt::format, crate::stubs::fmt_stub)] #[kani::stub(core::str::slice_error_fail, crate::stubs::slice_error_fail_stub)] c12_upload_marker0 => upload_marker0;
    #[kani::unwind(20)] #[kani::stub(std::fmt::format, crate::stubs::fmt_stub)] #[kani::stub(core::str::slice_error_fail, crate::stubs::slice_error_fail_stub)] c12_upload_marker1 => upload_marker1;
    #[kani::unwind(20)] #[kani::stub(std::fmt::format, crate::stubs::fmt_stub)] #[kani::stub(core::str::slice_error_fail, crate::stubs::slice_error_fail_stub)] c12_upload_marker2 => upload_marker2;
    #[kani::unwind(20)] #[kani::stub(std::fmt::format, crate::stubs::fmt_stub)] #[kani::stub(core::str::slice_error_fail, crate::stubs::slice_error_fail_stub)] c12_upload_marker3 => upload_marker3;
    #[kani::unwind(20)] #[kani::stub(std::fmt::format, crate::stubs::fmt_stub)] #[kani::stub(core::str::slice_error_fail, crate::stubs::slice_error_fail_stub)] c12_upload_other => upload_other;
    #[kani::unwind(3)] #[kani::stub(std::fmt::format, crate::stubs::fmt_stub)] #[kani::stub(std::hash::RandomState::new, crate::stubs::rs_new)] c12_upload_value_no_files => upload_value_no_files;
}
