//! C17 — exported SDL is valid: the string-escaping kernels of the SDL exporter.
//! Real code: `escape_string` (used for `@deprecated(reason: "...")`) and
//! `write_description` (src/registry/export_sdl.rs).
use async_graphql::verif_hooks::registry::{escape_string, write_description};
use async_graphql::SDLExportOptions;

use crate::strdec::decode;
use crate::vsrc::Src;

fn role(c: u8) -> &'static str {
    match c {
        b'"' => "double-quote",
        b'\\' => "backslash",
        b'\r' => "carriage-return",
        b'\n' => "line-feed",
        _ => "other",
    }
}

/// For every ASCII string s of exactly L bytes, `escape_string(s)` is valid GraphQL string
/// content (so `"` + it + `"` is a string literal) that denotes s.
fn escape<S: Src, const L: usize, const LO: u8, const HI: u8>(s: &mut S) {
    let mut b = [0u8; L];
    let mut i = 0;
    while i < L {
        b[i] = s.u8();
        s.assume(b[i] >= LO && b[i] <= HI);
        i += 1;
    }
    let text = unsafe { String::from_utf8_unchecked(b.to_vec()) };
    let out = escape_string(&text);
    let ob = out.as_bytes();
    cover!(ob.len() > L, "something was escaped");
    cover!(ob.len() == L, "nothing was escaped");
    let mut dec = [0u32; 4];
    let n = decode(ob, &mut dec);
    let mut ok = n == Some(L);
    let mut i = 0;
    while i < L {
        if ok && dec[i] != b[i] as u32 {
            ok = false;
        }
        i += 1;
    }
    if !ok {
        let mut k = "other";
        let mut i = 0;
        while i < L {
            if role(b[i]) != "other" {
                k = role(b[i]);
            }
            i += 1;
        }
        s.key(k);
    }
    assert!(ok, "escaped text is not valid string content denoting the original string");
    std::mem::forget(out);
    std::mem::forget(text);
}
pub fn escape1_low<S: Src>(s: &mut S) { escape::<S, 1, 0x00, 0x3F>(s) }
pub fn escape1_high<S: Src>(s: &mut S) { escape::<S, 1, 0x40, 0x7F>(s) }
pub fn escape2<S: Src>(s: &mut S) { escape::<S, 2, 0x00, 0x7F>(s) }

/// Single-line description mode: for every ASCII description of exactly L bytes without a
/// line feed, the emitted line is `"<content>"` + LF where content is valid string content
/// denoting the description.
fn description_single<S: Src, const L: usize>(s: &mut S) {
    let mut b = [0u8; L];
    let mut i = 0;
    while i < L {
        b[i] = s.u8();
        s.assume(b[i] < 0x80 && b[i] != b'\n');
        i += 1;
    }
    let text = unsafe { String::from_utf8_unchecked(b.to_vec()) };
    let options = SDLExportOptions::new().prefer_single_line_descriptions();
    let mut sdl = String::new();
    write_description(&mut sdl, &options, 0, &text);
    let ob = sdl.as_bytes();
    let n = ob.len();
    cover!(n > L + 3, "something was escaped");
    cover!(n == L + 3, "nothing was escaped");
    let mut ok = n >= 3 && ob[0] == b'"' && ob[n - 1] == b'\n' && ob[n - 2] == b'"';
    if ok {
        let mut dec = [0u32; 4];
        ok = decode(&ob[1..n - 2], &mut dec) == Some(L);
        let mut i = 0;
        while i < L {
            if ok && dec[i] != b[i] as u32 {
                ok = false;
            }
            i += 1;
        }
    }
    if !ok {
        let mut k = "other";
        let mut i = 0;
        while i < L {
            if role(b[i]) != "other" {
                k = role(b[i]);
            }
            i += 1;
        }
        s.key(k);
    }
    assert!(ok, "single-line description is not a string literal denoting the description");
    std::mem::forget(sdl);
    std::mem::forget(text);
}
pub fn description_single1<S: Src>(s: &mut S) { description_single::<S, 1>(s) }
pub fn description_single2<S: Src>(s: &mut S) { description_single::<S, 2>(s) }

harnesses! {
    #[kani::unwind(6)] c17_escape1_low => escape1_low;
    #[kani::unwind(6)] c17_escape1_high => escape1_high;
    #[kani::unwind(7)] c17_escape2 => escape2;
    #[kani::unwind(8)] #[kani::stub(core::str::slice_error_fail, crate::stubs::slice_error_fail_stub)] c17_description_single1 => description_single1;
    #[kani::unwind(9)] #[kani::stub(core::str::slice_error_fail, crate::stubs::slice_error_fail_stub)] c17_description_single2 => description_single2;
}
