//! C20 — cache policy combinator: `CacheControl::merge` (src/registry/cache_control.rs).
use async_graphql::{verif_hooks::cache_control_merge as merge, CacheControl};

use crate::vsrc::Src;

fn cc<S: Src>(s: &mut S) -> CacheControl {
    CacheControl {
        public: s.bool(),
        max_age: s.i32(),
    }
}

/// Reference: the combination the property states, written independently of `merge`.
/// Order on max_age: -1 (no-cache) is most restrictive; 0 means "unset" (identity);
/// among the remaining ages the smaller is the more restrictive.
fn ref_merge(a: CacheControl, b: CacheControl) -> CacheControl {
    let max_age = if a.max_age == -1 || b.max_age == -1 {
        -1
    } else if a.max_age == 0 {
        b.max_age
    } else if b.max_age == 0 {
        a.max_age
    } else if a.max_age < b.max_age {
        a.max_age
    } else {
        b.max_age
    };
    CacheControl {
        public: !(!a.public || !b.public),
        max_age,
    }
}

/// Commutativity, associativity, idempotence, identity, agreement with the reference.
pub fn merge_laws<S: Src>(s: &mut S) {
    let a = cc(s);
    let b = cc(s);
    let c = cc(s);
    let ab = merge(a, &b);
    cover!(ab.max_age == -1 && a.max_age != -1, "no-cache taken from right operand");
    cover!(a.max_age > 0 && b.max_age > 0 && ab.max_age == b.max_age && a.max_age != b.max_age, "min picks right");
    cover!(!ab.public && a.public, "private taken from right operand");
    assert!(ab == merge(b, &a), "merge is commutative");
    assert!(merge(ab, &c) == merge(a, &merge(b, &c)), "merge is associative");
    assert!(merge(a, &a) == a, "merge is idempotent");
    assert!(merge(a, &CacheControl::default()) == a, "default is the identity");
    assert!(ab == ref_merge(a, b), "merge equals the stated combination");
}

/// Never looser than either operand.
pub fn merge_never_looser<S: Src>(s: &mut S) {
    let a = cc(s);
    let b = cc(s);
    let m = merge(a, &b);
    cover!(m.public, "public result");
    cover!(m.max_age > 0, "positive max-age result");
    if m.public {
        assert!(a.public && b.public, "public only if both public");
    }
    if a.max_age == -1 || b.max_age == -1 {
        assert!(m.max_age == -1, "no-cache if any operand is no-cache");
    } else {
        if a.max_age > 0 {
            assert!(m.max_age != 0 && m.max_age <= a.max_age, "max-age never exceeds a positive operand");
        }
        if b.max_age > 0 {
            assert!(m.max_age != 0 && m.max_age <= b.max_age, "max-age never exceeds a positive operand");
        }
        if a.max_age > 0 && b.max_age > 0 {
            assert!(m.max_age == a.max_age || m.max_age == b.max_age, "max-age is one of the operands");
        }
    }
}

/// Folding over a sequence of up to N policies equals the closed form.
fn fold_n<S: Src, const N: usize>(s: &mut S) {
    let n = s.below(N + 1);
    let mut acc = CacheControl::default();
    let mut any_private = false;
    let mut any_nocache = false;
    let mut min_pos: Option<i32> = None;
    let mut i = 0;
    while i < N {
        if i < n {
            let p = CacheControl {
                public: s.bool(),
                max_age: s.i32(),
            };
            // hints come from `cache_control(max_age = n)` (n > 0), `no_cache` (-1) or unset (0)
            s.assume(p.max_age >= -1);
            acc = merge(acc, &p);
            any_private |= !p.public;
            any_nocache |= p.max_age == -1;
            if p.max_age > 0 {
                min_pos = Some(match min_pos {
                    Some(m) if m < p.max_age => m,
                    _ => p.max_age,
                });
            }
        }
        i += 1;
    }
    cover!(n == N && any_private && !any_nocache && min_pos.is_some(), "full-length fold, private, positive age");
    cover!(any_nocache, "fold with no-cache");
    assert!(acc.public == !any_private, "private iff any private");
    let expect = if any_nocache { -1 } else { min_pos.unwrap_or(0) };
    assert!(acc.max_age == expect, "no-cache if any, else min of positive ages");
}

pub fn fold3<S: Src>(s: &mut S) {
    fold_n::<S, 3>(s)
}
pub fn fold5<S: Src>(s: &mut S) {
    fold_n::<S, 5>(s)
}

harnesses! {
    #[kani::unwind(2)] c20_merge_laws => merge_laws;
    #[kani::unwind(2)] c20_merge_never_looser => merge_never_looser;
    #[kani::unwind(5)] c20_fold3 => fold3;
    #[kani::unwind(7)] c20_fold5 => fold5;
}
