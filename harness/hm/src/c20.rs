//! C20 — cache policy combinator: `CacheControl::merge` (src/registry/cache_control.rs).
use async_graphql::{verif_hooks::cache_control_merge as merge, CacheControl};

use crate::vsrc::Src;

fn cc<S: Src>(s: &mut S) -> CacheControl {
    CacheControl {
        public: s.bool(),
        max_age: s.i32(),
    }
}

/// Reference: the combination the property states, written independently of `merge`.
/// Order on max_age: -1 (no-cache) is most restrictive; 0 means "unset" (identity);
/// among the remaining ages the smaller is the more restrictive.
fn ref_merge(a: CacheControl, b: CacheControl) -> CacheControl {
    let max_age = if a.max_age == -1 || b.max_age == -1 {
        -1
    } else if a.max_age == 0 {
        b.max_age
    } else if b.max_age == 0 {
        a.max_age
    } else if a.max_age < b.max_age {
        a.max_age
    } else {
        b.max_age
    };
    CacheControl {
        public: !(!a.public || !b.public),
        max_age,
    }
}

/// Commutativity, associativity, idempotence, identity, agreement with the reference.
pub fn merge_laws<S: Src>(s: &mut S) {
    let a = cc(s);
    let b = cc(s);
    let c = cc(s);
    let ab = merge(a, &b);
    cover!(ab.max_age == -1 && a.max_age != -1, "no-cache taken from right operand");
    cover!(a.max_age > 0 && b.max_age > 0 && ab.max_age == b.max_age && a.max_age != b.max_age, "min picks right");
    cover!(!ab.public && a.public, "private taken from right operand");
    assert!(ab == merge(b, &a), "merge is commutative");
    assert!(merge(ab, &c) == merge(a, &merge(b, &c)), "merge is associative");
    assert!(merge(a, &a) == a, "merge is idempotent");
    assert!(merge(a, &CacheControl::default()) == a, "default is the identity");
    assert!(ab == ref_merge(a, b), "merge equals the stated combination");
}

/// Never looser than either operand.
pub fn merge_never_looser<S: Src>(s: &mut S) {
    let a = cc(s);
    let b = cc(s);
    let m = merge(a, &b);
    cover!(m.public, "public result");
    cover!(m.max_age > 0, "positive max-age result");
    if m.public {
        assert!(a.public && b.public, "public only if both public");
    }
    if a.max_age == -1 || b.max_age == -1 {
        assert!(m.max_age == -1, "no-cache if any operand is no-cache");
    } else {
        if a.max_age > 0 {
            assert!(m.max_age != 0 && m.max_age <= a.max_age, "max-age never exceeds a positive operand");
        }
        if b.max_age > 0 {
            assert!(m.max_age != 0 && m.max_age <= b.max_age, "max-age never exceeds a positive operand");
        }
        if a.max_age > 0 && b.max_age > 0 {
            assert!(m.max_age == a.max_age || m.max_age == b.max_age, "max-age is one of the operands");
        }
    }
}

/// Folding over a sequence of up to N policies equals the closed form.
fn fold_n<S: Src, const N: usize>(s: &mut S) {
    let n = s.below(N + 1);
    let mut acc = CacheControl::default();
    let mut any_private = false;
    let mut any_nocache = false;
    let mut min_pos: Option<i32> = None;
    let mut i = 0;
    while i < N {
        if i < n {
            let p = CacheControl {
                public: s.bool(),
                max_age: s.i32(),
            };
            // hints come from `cache_control(max_age = n)` (n > 0), `no_cache` (-1) or unset (0)
            s.assume(p.max_age >= -1);
            acc = merge(acc, &p);
            any_private |= !p.public;
            any_nocache |= p.max_age == -1;
            if p.max_age > 0 {
                min_pos = Some(match min_pos {
                    Some(m) if m < p.max_age => m,
                    _ => p.max_age,
                });
            }
        }
        i += 1;
    }
    cover!(n == N && any_private && !any_nocache && min_pos.is_some(), "full-length fold, private, positive age");
    cover!(any_nocache, "fold with no-cache");
    assert!(acc.public == !any_private, "private iff any private");
    let expect = if any_nocache { -1 } else { min_pos.unwrap_or(0) };
    assert!(acc.max_age == expect, "no-cache if any, else min of positive ages");
}

pub fn fold3<S: Src>(s: &mut S) {
    fold_n::<S, 3>(s)
}
pub fn fold5<S: Src>(s: &mut S) {
    fold_n::<S, 5>(s)
}

harnesses! {
    #[kani::unwind(2)] c20_merge_laws => merge_laws;
    #[kani::unwind(2)] c20_merge_never_looser => merge_never_looser;
    #[kani::unwind(5)] c20_fold3 => fold3;
    #[kani::unwind(7)] c20_fold5 => fold5;
}

// ---------------------------------------------------------------------------------------------
// The visitor that folds the hints during validation: `CacheControlCalculate`
// (src/validation/visitors/cache_control.rs), composed with VisitorCons as in `check_rules`,
// driven with one `enter_selection_set` per object type whose data the response contains.
pub mod visitor {
    use std::mem::ManuallyDrop;

    use async_graphql::registry::{MetaType, Registry};
    use async_graphql::verif_hooks::validation::drive_cache_control;
    use async_graphql::CacheControl;

    use crate::ast::{query_doc, sset};
    use crate::vsrc::Src;

    fn object(cc: CacheControl) -> MetaType {
        MetaType::Object {
            name: String::new(),
            description: None,
            fields: Default::default(),
            cache_control: cc,
            extends: false,
            shareable: false,
            resolvable: true,
            inaccessible: false,
            interface_object: false,
            tags: Vec::new(),
            keys: None,
            visible: None,
            is_subscription: false,
            rust_typename: None,
            directive_invocations: Vec::new(),
            requires_scopes: Vec::new(),
        }
    }

    /// For selections made only on object types the response policy equals exactly the
    /// combination of the object types' hints, whatever their order: N object types with
    /// solver-chosen hints (public: any bool; max_age: any i32 >= -1).
    fn objects<S: Src, const N: usize>(s: &mut S) {
        let mut any_private = false;
        let mut any_nocache = false;
        let mut min_pos: Option<i32> = None;
        let mut hints = [CacheControl::default(); N];
        let mut i = 0;
        while i < N {
            let p = CacheControl { public: s.bool(), max_age: s.i32() };
            s.assume(p.max_age >= -1);
            hints[i] = p;
            any_private |= !p.public;
            any_nocache |= p.max_age == -1;
            if p.max_age > 0 {
                min_pos = Some(match min_pos {
                    Some(m) if m < p.max_age => m,
                    _ => p.max_age,
                });
            }
            i += 1;
        }
        let reg = ManuallyDrop::new(Registry::default());
        let doc = ManuallyDrop::new(query_doc(Vec::new()));
        let set = ManuallyDrop::new(sset(Vec::new()));
        let t0 = ManuallyDrop::new(object(hints[0]));
        let t1 = ManuallyDrop::new(object(hints[if N > 1 { 1 } else { 0 }]));
        let t2 = ManuallyDrop::new(object(hints[if N > 2 { 2 } else { 0 }]));
        let all: [&MetaType; 3] = [&t0, &t1, &t2];
        let got = drive_cache_control(&reg, &doc, &set, &all[..N]);
        cover!(any_nocache && any_private && N > 1 && hints[0].max_age == -1 && hints[0].public, "no-cache first, private later");
        cover!(!any_nocache && min_pos.is_some(), "positive max-age");
        assert!(got.public == !any_private, "response policy is private iff any object type is private");
        let expect = if any_nocache { -1 } else { min_pos.unwrap_or(0) };
        assert!(got.max_age == expect, "no-cache if any, else the minimum positive max-age");
    }
    pub fn objects2<S: Src>(s: &mut S) { objects::<S, 2>(s) }
    pub fn objects3<S: Src>(s: &mut S) { objects::<S, 3>(s) }

    harnesses! {
        #[kani::unwind(5)] #[kani::stub(std::hash::RandomState::new, crate::stubs::rs_new)] c20_visitor_objects2 => objects2;
        #[kani::unwind(5)] #[kani::stub(std::hash::RandomState::new, crate::stubs::rs_new)] c20_visitor_objects3 => objects3;
    }
}

// ---------------------------------------------------------------------------------------------
// Field-level measurement: the three measuring visitors over ONE field selected on a parent
// object type that declares the field with a cache hint and its own complexity rule.
// Used by C20 (field-level hint reaches the policy) and C10 (custom complexity rule applies,
// with or without an alias on the selection).
pub mod field {
    use std::mem::ManuallyDrop;

    use async_graphql::parser::types::{Field, VariableDefinition};
    use async_graphql::registry::{MetaField, MetaType, Registry};
    use async_graphql::verif_hooks::validation::drive_field_visitors;
    use async_graphql::{CacheControl, Name, Positioned, ServerResult, VisitorContext};

    use crate::ast::{p, query_doc, sset};
    use crate::vsrc::Src;

    fn rule(_: &VisitorContext<'_>, _: &[Positioned<VariableDefinition>], _: &Field, child: usize) -> ServerResult<usize> {
        Ok(child + 41)
    }

    /// ALIAS: 0 = no alias, 1 = alias "x" (names no field), 2 = no alias and the field has NO
    /// own complexity rule (control: default 1 + children).
    fn field_measures<S: Src, const ALIAS: u8>(s: &mut S) {
        let hint = CacheControl { public: s.bool(), max_age: s.i32() };
        s.assume(hint.max_age >= -1);
        let mut f = MetaField::new("f", "Int");
        f.cache_control = hint;
        if ALIAS != 2 {
            f.compute_complexity = Some(rule);
        }
        let mut fields = async_graphql::indexmap::IndexMap::new();
        fields.insert("f".to_string(), f);
        let parent = ManuallyDrop::new(MetaType::Object {
            name: String::new(), description: None, fields, cache_control: CacheControl::default(), extends: false,
            shareable: false, resolvable: true, inaccessible: false, interface_object: false, tags: Vec::new(), keys: None,
            visible: None, is_subscription: false, rust_typename: None, directive_invocations: Vec::new(), requires_scopes: Vec::new(),
        });
        let sel: ManuallyDrop<Positioned<Field>> = ManuallyDrop::new(p(Field {
            alias: if ALIAS == 1 { Some(p(Name::new("x"))) } else { None },
            name: p(Name::new("f")),
            arguments: Vec::new(),
            directives: Vec::new(),
            selection_set: sset(Vec::new()),
        }));
        let reg = ManuallyDrop::new(Registry::default());
        let doc = ManuallyDrop::new(query_doc(Vec::new()));
        let (cc, complexity, depth, errors) = drive_field_visitors(&reg, &doc, &parent, &sel);
        cover!(!hint.public && hint.max_age > 0, "private hint with a positive max-age");
        cover!(hint.max_age == -1, "no-cache hint");
        assert!(errors == 0, "no validation error");
        assert!(cc == hint, "the field's cache hint is the response policy");
        assert!(depth == 1, "one field: depth 1");
        assert!(complexity == if ALIAS == 2 { 1 } else { 41 }, "the field's own complexity rule applies (alias or not)");
    }
    pub fn field_measures_plain<S: Src>(s: &mut S) { field_measures::<S, 0>(s) }
    pub fn field_measures_alias<S: Src>(s: &mut S) { field_measures::<S, 1>(s) }
    pub fn field_measures_norule<S: Src>(s: &mut S) { field_measures::<S, 2>(s) }

    harnesses! {
        #[kani::unwind(6)] #[kani::stub(std::fmt::format, crate::stubs::fmt_stub)] #[kani::stub(std::hash::RandomState::new, crate::stubs::rs_new)] c20_field_measures_plain => field_measures_plain;
        #[kani::unwind(6)] #[kani::stub(std::fmt::format, crate::stubs::fmt_stub)] #[kani::stub(std::hash::RandomState::new, crate::stubs::rs_new)] c20_field_measures_alias => field_measures_alias;
        #[kani::unwind(6)] #[kani::stub(std::fmt::format, crate::stubs::fmt_stub)] #[kani::stub(std::hash::RandomState::new, crate::stubs::rs_new)] c20_field_measures_norule => field_measures_norule;
    }
}
