//! C21 — secret arguments never appear in stringified documents: the value printer.
//! Real code: `Registry::stringify_input_value` (src/registry/stringify_exec_doc.rs), called by
//! `stringify_exec_doc` for every argument of every field of the logged document.
use std::mem::ManuallyDrop;

use async_graphql::registry::{MetaInputValue, Registry};
use async_graphql::verif_hooks::registry::stringify_input_value;
use async_graphql::{Number, Value};

use crate::vsrc::Src;

const MASK: &[u8] = b"\"<secret>\"";

fn is_mask(b: &[u8]) -> bool {
    b.len() == MASK.len()
        && b[0] == MASK[0]
        && b[1] == MASK[1]
        && b[2] == MASK[2]
        && b[3] == MASK[3]
        && b[4] == MASK[4]
        && b[5] == MASK[5]
        && b[6] == MASK[6]
        && b[7] == MASK[7]
        && b[8] == MASK[8]
        && b[9] == MASK[9]
}

fn setup(secret: bool) -> (ManuallyDrop<MetaInputValue>, ManuallyDrop<Registry>) {
    let mut meta = MetaInputValue::new("arg", "String");
    meta.is_secret = secret;
    (ManuallyDrop::new(meta), ManuallyDrop::new(Registry::default()))
}

/// A String argument (one symbolic lowercase letter) with a symbolic `is_secret` flag: the
/// output is exactly the mask iff the argument is secret, and otherwise the GraphQL literal
/// of the value; a secret value never appears. (One harness per value kind.)
pub fn secret_string<S: Src>(s: &mut S) {
    let secret = s.bool();
    let ch = s.u8();
    s.assume(ch >= b'a' && ch <= b'z');
    let (meta, reg) = setup(secret);
    cover!(secret, "secret");
    cover!(!secret, "plain");
    let v = ManuallyDrop::new(Value::String(unsafe { String::from_utf8_unchecked(vec![ch]) }));
    let mut out = String::new();
    let r = stringify_input_value(&reg, &mut out, Some(&meta), &v);
    assert!(r.is_ok(), "stringify failed");
    let ob = out.as_bytes();
    if secret {
        assert!(is_mask(ob), "a secret argument is not masked");
    } else {
        assert!(ob.len() == 3 && ob[0] == b'"' && ob[1] == ch && ob[2] == b'"', "plain string printed as its literal");
    }
    std::mem::forget(out);
}

pub fn secret_number<S: Src>(s: &mut S) {
    let secret = s.bool();
    let n = s.u8();
    s.assume(n < 10);
    let (meta, reg) = setup(secret);
    cover!(secret, "secret");
    cover!(!secret, "plain");
    let v = ManuallyDrop::new(Value::Number(Number::from(n as u64)));
    let mut out = String::new();
    let r = stringify_input_value(&reg, &mut out, Some(&meta), &v);
    assert!(r.is_ok(), "stringify failed");
    let ob = out.as_bytes();
    if secret {
        assert!(is_mask(ob), "a secret argument is not masked");
    } else {
        assert!(ob.len() == 1 && ob[0] == b'0' + n, "plain number printed as its literal");
    }
    std::mem::forget(out);
}

pub fn secret_bool_null<S: Src>(s: &mut S) {
    let secret = s.bool();
    let flag = s.bool();
    let (meta, reg) = setup(secret);
    cover!(secret, "secret");
    cover!(!secret && flag, "plain true");
    let v = ManuallyDrop::new(Value::Boolean(flag));
    let mut out = String::new();
    let r = stringify_input_value(&reg, &mut out, Some(&meta), &v);
    assert!(r.is_ok(), "stringify failed");
    if secret {
        assert!(is_mask(out.as_bytes()), "a secret argument is not masked");
    } else {
        assert!(out.len() == if flag { 4 } else { 5 }, "plain boolean printed as its literal");
    }
    std::mem::forget(out);
    let v = ManuallyDrop::new(Value::Null);
    let mut out = String::new();
    let r = stringify_input_value(&reg, &mut out, Some(&meta), &v);
    assert!(r.is_ok(), "stringify failed");
    if secret {
        assert!(is_mask(out.as_bytes()), "a secret null argument is not masked");
    } else {
        assert!(out.len() == 4, "null printed as its literal");
    }
    std::mem::forget(out);
}

/// Without schema information about the argument (unknown field / argument) the value is
/// printed as is; with a secret meta a LIST value is masked as a whole.
pub fn secret_list<S: Src>(s: &mut S) {
    let secret = s.bool();
    let ch = s.u8();
    s.assume(ch >= b'a' && ch <= b'z');
    let mut meta = MetaInputValue::new("arg", "[String]");
    meta.is_secret = secret;
    let meta = ManuallyDrop::new(meta);
    let reg = ManuallyDrop::new(Registry::default());
    let st = unsafe { String::from_utf8_unchecked(vec![ch]) };
    let v = ManuallyDrop::new(Value::List(vec![Value::String(st)]));
    let mut out = String::new();
    let r = stringify_input_value(&reg, &mut out, Some(&meta), &v);
    assert!(r.is_ok());
    let ob = out.as_bytes();
    cover!(secret, "secret list");
    cover!(!secret, "plain list");
    if secret {
        assert!(is_mask(ob), "a secret list argument is not masked");
    } else {
        assert!(ob.len() == 5 && ob[0] == b'[' && ob[2] == ch && ob[4] == b']', "plain list printed as its literal");
    }
    std::mem::forget(out);
}

harnesses! {
    #[kani::unwind(6)] #[kani::stub(std::hash::RandomState::new, crate::stubs::rs_new)] c21_secret_string => secret_string;
    #[kani::unwind(6)] #[kani::stub(std::hash::RandomState::new, crate::stubs::rs_new)] c21_secret_number => secret_number;
    #[kani::unwind(6)] #[kani::stub(std::hash::RandomState::new, crate::stubs::rs_new)] c21_secret_bool_null => secret_bool_null;
    #[kani::unwind(6)] #[kani::stub(std::hash::RandomState::new, crate::stubs::rs_new)] c21_secret_list => secret_list;
}
