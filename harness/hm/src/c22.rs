//! C22 — look-ahead lists every sub-field that will be resolved: the collector.
//! Real code: `look_ahead::filter` (src/look_ahead.rs), the function behind
//! `Lookahead::field(name)`.
use std::collections::HashMap;
use std::mem::ManuallyDrop;

use async_graphql::parser::types::*;
use async_graphql::verif_hooks::look_ahead::filter;
use async_graphql::{Name, Positioned};

use crate::ast::*;
use crate::vsrc::Src;

fn nm(b: bool) -> &'static str {
    if b {
        "a"
    } else {
        "b"
    }
}

/// One selection: a field, or an inline fragment holding that field (solver-chosen); field name
/// and looked-up name solver-chosen from {a, b}. `filter(name)` returns exactly the field iff
/// the names agree (CollectFields looks through inline fragments).
fn lookahead_one<S: Src, const WRAP: bool>(s: &mut S) {
    let n0 = s.bool();
    let wrap = WRAP;
    let want_name = s.bool();
    let f0 = field(nm(n0), Some("x0"), Vec::new(), Vec::new());
    let items = vec![if wrap { inline(vec![f0]) } else { f0 }];
    let set = ManuallyDrop::new(SelectionSet { items });
    let frags: ManuallyDrop<HashMap<Name, Positioned<FragmentDefinition>>> = ManuallyDrop::new(HashMap::default());
    let mut out: Vec<&Field> = Vec::new();
    filter(&mut out, &frags, &set, nm(want_name));
    let want = (n0 == want_name) as usize;
    cover!(want == 1, "match");
    cover!(want == 0, "no match");
    assert!(out.len() == want, "number of fields reported");
    if want == 1 {
        let a = out[0].alias.as_ref().map(|a| a.node.as_str().len()).unwrap_or(0);
        assert!(a == 2, "the matching field is reported");
    }
    std::mem::forget(out);
}

pub fn lookahead_one_field<S: Src>(s: &mut S) { lookahead_one::<S, false>(s) }
pub fn lookahead_one_inline<S: Src>(s: &mut S) { lookahead_one::<S, true>(s) }

/// Two sibling fields (names solver-chosen): both, one or none are reported, in document order.
pub fn lookahead_siblings<S: Src>(s: &mut S) {
    let n0 = s.bool();
    let n1 = s.bool();
    let want_name = s.bool();
    let f0 = field(nm(n0), Some("x0"), Vec::new(), Vec::new());
    let f1 = field(nm(n1), Some("x1"), Vec::new(), Vec::new());
    let set = ManuallyDrop::new(SelectionSet { items: vec![f0, f1] });
    let frags: ManuallyDrop<HashMap<Name, Positioned<FragmentDefinition>>> = ManuallyDrop::new(HashMap::default());
    let mut out: Vec<&Field> = Vec::new();
    filter(&mut out, &frags, &set, nm(want_name));
    let e0 = n0 == want_name;
    let e1 = n1 == want_name;
    let want = e0 as usize + e1 as usize;
    cover!(want == 2, "both fields match");
    cover!(want == 0, "no match");
    assert!(out.len() == want, "number of fields reported");
    let alias = |f: &Field| f.alias.as_ref().map(|a| a.node.as_str().as_bytes()[1]).unwrap_or(0);
    if want == 2 {
        assert!(alias(out[0]) == b'0' && alias(out[1]) == b'1', "document order");
    } else if want == 1 {
        assert!(alias(out[0]) == if e0 { b'0' } else { b'1' }, "the matching field is reported");
    }
    std::mem::forget(out);
}

/// A spread of the (only) fragment F, or of an unknown fragment, written directly or inside
/// an inline fragment (solver-chosen): the fragment's field is reported iff the fragment is
/// known and the names agree (CollectFields follows spreads at any nesting of inline fragments).
fn lookahead_spread<S: Src, const WRAP: bool, const KNOWN: bool>(s: &mut S) {
    let n1 = s.bool();
    let known = KNOWN;
    let wrap = WRAP;
    let want_name = s.bool();
    let f1 = field(nm(n1), Some("x1"), Vec::new(), Vec::new());
    let sp = spread(if known { "F" } else { "G" });
    let set = ManuallyDrop::new(SelectionSet { items: vec![if wrap { inline(vec![sp]) } else { sp }] });
    let mut m: HashMap<Name, Positioned<FragmentDefinition>> = HashMap::default();
    m.insert(Name::new("F"), fragment_def(vec![f1]));
    let frags = ManuallyDrop::new(m);
    let mut out: Vec<&Field> = Vec::new();
    filter(&mut out, &frags, &set, nm(want_name));
    let want = (known && n1 == want_name) as usize;
    cover!(want == 1 || !known, "field of the fragment reported");
    cover!(want == 0, "nothing reported");
    assert!(out.len() == want, "number of fields reported");
    std::mem::forget(out);
}

pub fn lookahead_spread_direct<S: Src>(s: &mut S) { lookahead_spread::<S, false, true>(s) }
pub fn lookahead_spread_inline<S: Src>(s: &mut S) { lookahead_spread::<S, true, true>(s) }
pub fn lookahead_spread_unknown<S: Src>(s: &mut S) { lookahead_spread::<S, false, false>(s) }

harnesses! {
    #[kani::unwind(5)] #[kani::stub(std::hash::RandomState::new, crate::stubs::rs_new)] c22_lookahead_one_field => lookahead_one_field;
    #[kani::unwind(3)] #[kani::stub(std::hash::RandomState::new, crate::stubs::rs_new)] c22_lookahead_one_inline => lookahead_one_inline;
    #[kani::unwind(5)] #[kani::stub(std::hash::RandomState::new, crate::stubs::rs_new)] c22_lookahead_siblings => lookahead_siblings;
    #[kani::unwind(3)] #[kani::stub(std::hash::RandomState::new, crate::stubs::rs_new)] c22_lookahead_spread_direct => lookahead_spread_direct;
    #[kani::unwind(3)] #[kani::stub(std::hash::RandomState::new, crate::stubs::rs_new)] c22_lookahead_spread_inline => lookahead_spread_inline;
    #[kani::unwind(3)] #[kani::stub(std::hash::RandomState::new, crate::stubs::rs_new)] c22_lookahead_spread_unknown => lookahead_spread_unknown;
}
