//! C22 — look-ahead lists every sub-field that will be resolved: the collector.
//! Real code: `look_ahead::filter` (src/look_ahead.rs), the function behind
//! `Lookahead::field(name)`.
use std::collections::HashMap;
use std::mem::ManuallyDrop;

use async_graphql::parser::types::*;
use async_graphql::verif_hooks::look_ahead::filter;
use async_graphql::{Name, Positioned};

use crate::ast::*;
use crate::vsrc::Src;

fn nm(b: bool) -> &'static str {
    if b {
        "a"
    } else {
        "b"
    }
}

/// A selection set of two items: item 0 is a field (name chosen by the solver), item 1 is a
/// field or an inline fragment holding one field (kind and names chosen by the solver).
/// `filter(name)` returns exactly the fields of that name the spec's CollectFields visits one
/// level down, in document order (identified by their aliases).
pub fn lookahead_two<S: Src>(s: &mut S) {
    let n0 = s.bool();
    let n1 = s.bool();
    let wrap1 = s.bool();
    let want_name = s.bool();
    let f0 = field(nm(n0), Some("x0"), Vec::new(), Vec::new());
    let f1 = field(nm(n1), Some("x1"), Vec::new(), Vec::new());
    let items = vec![f0, if wrap1 { inline(vec![f1]) } else { f1 }];
    let set = ManuallyDrop::new(SelectionSet { items });
    let frags: ManuallyDrop<HashMap<Name, Positioned<FragmentDefinition>>> = ManuallyDrop::new(HashMap::default());
    let mut out: Vec<&Field> = Vec::new();
    filter(&mut out, &frags, &set, nm(want_name));
    let e0 = n0 == want_name;
    let e1 = n1 == want_name;
    let want = e0 as usize + e1 as usize;
    cover!(want == 2 && wrap1, "both fields match, one through an inline fragment");
    cover!(want == 0, "no match");
    assert!(out.len() == want, "number of fields reported");
    let alias = |f: &Field| f.alias.as_ref().map(|a| a.node.as_str().as_bytes()[1]).unwrap_or(0);
    if want == 2 {
        assert!(alias(out[0]) == b'0' && alias(out[1]) == b'1', "document order");
    } else if want == 1 {
        assert!(alias(out[0]) == if e0 { b'0' } else { b'1' }, "the matching field is reported");
    }
    std::mem::forget(out);
}

/// A field reached through a named fragment spread is reported (one fragment definition).
pub fn lookahead_spread<S: Src>(s: &mut S) {
    let n0 = s.bool();
    let n1 = s.bool();
    let known = s.bool();
    let want_name = s.bool();
    let f0 = field(nm(n0), Some("x0"), Vec::new(), Vec::new());
    let f1 = field(nm(n1), Some("x1"), Vec::new(), Vec::new());
    let set = ManuallyDrop::new(SelectionSet { items: vec![spread(if known { "F" } else { "G" }), f0] });
    let mut m: HashMap<Name, Positioned<FragmentDefinition>> = HashMap::default();
    m.insert(Name::new("F"), fragment_def(vec![f1]));
    let frags = ManuallyDrop::new(m);
    let mut out: Vec<&Field> = Vec::new();
    filter(&mut out, &frags, &set, nm(want_name));
    let e0 = n0 == want_name;
    let e1 = known && n1 == want_name;
    let want = e0 as usize + e1 as usize;
    cover!(want == 2, "field of the fragment and direct field");
    cover!(!known, "spread of an unknown fragment");
    assert!(out.len() == want, "number of fields reported");
    let alias = |f: &Field| f.alias.as_ref().map(|a| a.node.as_str().as_bytes()[1]).unwrap_or(0);
    if want == 2 {
        assert!(alias(out[0]) == b'1' && alias(out[1]) == b'0', "document order (spread first)");
    }
    std::mem::forget(out);
}

harnesses! {
    #[kani::unwind(5)] #[kani::stub(std::hash::RandomState::new, crate::stubs::rs_new)] c22_lookahead_two => lookahead_two;
    #[kani::unwind(5)] #[kani::stub(std::hash::RandomState::new, crate::stubs::rs_new)] c22_lookahead_spread => lookahead_spread;
}
