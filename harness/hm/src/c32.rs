//! C32 — connection cursors round-trip and pagination arguments are checked.
//! Real code: `CursorType` impls (src/types/connection/cursor.rs) and
//! `connection::query_with` (src/types/connection/mod.rs).
use std::cell::Cell;
use std::future::Future;
use std::pin::pin;
use std::task::{Context, Poll, Waker};

use async_graphql::connection::{query_with, CursorType};
use async_graphql::Error;

use crate::vsrc::Src;

fn poll_once<F: Future>(f: F) -> Option<F::Output> {
    let mut f = pin!(f);
    let w = Waker::noop();
    let mut cx = Context::from_waker(&w);
    match f.as_mut().poll(&mut cx) {
        Poll::Ready(v) => Some(v),
        Poll::Pending => None,
    }
}

/// Reference for `u8::from_str` (what `<u8 as CursorType>::decode_cursor` documents: the
/// decimal representation, optional leading '+'): Some(v) iff the text denotes a u8.
fn ref_u8(b: &[u8]) -> Option<u8> {
    let mut i = 0;
    if b.is_empty() {
        return None;
    }
    if b[0] == b'+' {
        i = 1;
        if b.len() == 1 {
            return None;
        }
    }
    let mut v: u32 = 0;
    while i < b.len() {
        if b[i] < b'0' || b[i] > b'9' {
            return None;
        }
        v = v * 10 + (b[i] - b'0') as u32;
        if v > 255 {
            return None;
        }
        i += 1;
    }
    Some(v as u8)
}

/// The page-fetching closure runs iff first >= 0, last >= 0 and the cursors decode, and then
/// receives exactly the decoded values. `after` is an arbitrary ASCII string of L bytes (or
/// absent), `before` absent; `SWAP` exchanges their roles.
fn gate<S: Src, const L: usize, const SWAP: bool>(s: &mut S) {
    let first = if s.bool() { Some(s.i32()) } else { None };
    let last = if s.bool() { Some(s.i32()) } else { None };
    let present = s.bool();
    let mut b = [0u8; L];
    let mut i = 0;
    while i < L {
        b[i] = s.u8();
        s.assume(b[i] < 0x80);
        i += 1;
    }
    let cur: Option<String> = if present {
        Some(unsafe { String::from_utf8_unchecked(b.to_vec()) })
    } else {
        None
    };
    let expect_cur: Option<Option<u8>> = if present { Some(ref_u8(&b)) } else { None };
    let called: Cell<Option<(Option<u8>, Option<u8>, Option<usize>, Option<usize>)>> = Cell::new(None);
    let (after, before) = if SWAP { (None, cur) } else { (cur, None) };
    let fut = query_with::<u8, u32, _, _, Error>(after, before, first, last, |a, b, f, l| {
        called.set(Some((a, b, f, l)));
        async move { Ok(7u32) }
    });
    let out = poll_once(fut);
    let should_call = first.map_or(true, |v| v >= 0)
        && last.map_or(true, |v| v >= 0)
        && match expect_cur {
            Some(None) => false,
            _ => true,
        };
    cover!(L == 0 || (should_call && present), "closure reached with a decoded cursor");
    cover!(!should_call && matches!(expect_cur, Some(None)), "undecodable cursor");
    cover!(matches!(first, Some(v) if v < 0), "negative first");
    match &out {
        Some(Ok(v)) => {
            assert!(should_call, "page closure ran although an argument is invalid");
            assert!(*v == 7, "closure result passed through");
            let got = called.get();
            let dec = expect_cur.flatten();
            let want = if SWAP { (None, dec) } else { (dec, None) };
            match got {
                Some((a, b, f, l)) => {
                    assert!((a, b) == want, "decoded cursors passed unchanged");
                    assert!(f == first.map(|v| v as usize) && l == last.map(|v| v as usize), "first/last passed unchanged");
                }
                None => assert!(false, "Ok without calling the closure"),
            }
        }
        Some(Err(_)) => {
            assert!(!should_call, "valid pagination arguments rejected");
            assert!(called.get().is_none(), "closure ran although the request is rejected");
        }
        None => assert!(false, "query_with did not complete"),
    }
    std::mem::forget(out);
}

/// Both cursors at once: `after` and `before` are each absent or an arbitrary 1-byte ASCII
/// string; the closure runs iff first/last are non-negative and BOTH present cursors decode,
/// and receives each decoded value in its own position (not swapped, not dropped).
pub fn gate_both<S: Src>(s: &mut S) {
    let first = if s.bool() { Some(s.i32()) } else { None };
    let last = if s.bool() { Some(s.i32()) } else { None };
    let pa = s.bool();
    let pb = s.bool();
    let ba = [s.u8()];
    let bb = [s.u8()];
    s.assume(ba[0] < 0x80 && bb[0] < 0x80);
    let after: Option<String> = if pa { Some(unsafe { String::from_utf8_unchecked(ba.to_vec()) }) } else { None };
    let before: Option<String> = if pb { Some(unsafe { String::from_utf8_unchecked(bb.to_vec()) }) } else { None };
    let ea: Option<Option<u8>> = if pa { Some(ref_u8(&ba)) } else { None };
    let eb: Option<Option<u8>> = if pb { Some(ref_u8(&bb)) } else { None };
    let called: Cell<Option<(Option<u8>, Option<u8>, Option<usize>, Option<usize>)>> = Cell::new(None);
    let fut = query_with::<u8, u32, _, _, Error>(after, before, first, last, |a, b, f, l| {
        called.set(Some((a, b, f, l)));
        async move { Ok(7u32) }
    });
    let out = poll_once(fut);
    let should_call = first.map_or(true, |v| v >= 0)
        && last.map_or(true, |v| v >= 0)
        && !matches!(ea, Some(None))
        && !matches!(eb, Some(None));
    cover!(should_call && pa && pb && ba[0] != bb[0], "closure reached with two different decoded cursors");
    cover!(pa && pb && matches!(ea, Some(Some(_))) && matches!(eb, Some(None)), "only `before` undecodable");
    match &out {
        Some(Ok(_)) => {
            assert!(should_call, "page closure ran although an argument is invalid");
            match called.get() {
                Some((a, b, f, l)) => {
                    assert!(a == ea.flatten() && b == eb.flatten(), "each decoded cursor passed in its own position");
                    assert!(f == first.map(|v| v as usize) && l == last.map(|v| v as usize), "first/last passed unchanged");
                }
                None => assert!(false, "Ok without calling the closure"),
            }
        }
        Some(Err(_)) => {
            assert!(!should_call, "valid pagination arguments rejected");
            assert!(called.get().is_none(), "closure ran although the request is rejected");
        }
        None => assert!(false, "query_with did not complete"),
    }
    std::mem::forget(out);
}
pub fn gate0<S: Src>(s: &mut S) { gate::<S, 0, false>(s) }
pub fn gate1<S: Src>(s: &mut S) { gate::<S, 1, false>(s) }
pub fn gate2<S: Src>(s: &mut S) { gate::<S, 2, false>(s) }
pub fn gate3<S: Src>(s: &mut S) { gate::<S, 3, false>(s) }
pub fn gate2_before<S: Src>(s: &mut S) { gate::<S, 2, true>(s) }

/// decode(encode(v)) == v for every value.
macro_rules! rt {
    ($name:ident, $t:ty, $draw:ident) => {
        pub fn $name<S: Src>(s: &mut S) {
            let v: $t = s.$draw();
            cover!(v == <$t>::MAX, "maximum");
            cover!(v == <$t>::MIN, "minimum");
            let e = v.encode_cursor();
            let d = <$t as CursorType>::decode_cursor(&e);
            match &d {
                Ok(w) => assert!(*w == v, "cursor round trip changed the value"),
                Err(_) => assert!(false, "encoded cursor does not decode"),
            }
            std::mem::forget(d);
            std::mem::forget(e);
        }
    };
}
rt!(rt_u8, u8, u8);
rt!(rt_i8, i8, i8);
rt!(rt_u16, u16, u16);
rt!(rt_i16, i16, i16);
rt!(rt_u32, u32, u32);
rt!(rt_i32, i32, i32);

pub fn rt_bool<S: Src>(s: &mut S) {
    let v = s.bool();
    cover!(v, "true");
    cover!(!v, "false");
    let e = v.encode_cursor();
    let d = <bool as CursorType>::decode_cursor(&e);
    assert!(matches!(&d, Ok(w) if *w == v), "bool cursor round trip");
    std::mem::forget(e);
}

pub fn rt_char_ascii<S: Src>(s: &mut S) {
    let c = s.char();
    s.assume((c as u32) < 0x80);
    cover!(c == '"', "quote");
    let e = c.encode_cursor();
    let d = <char as CursorType>::decode_cursor(&e);
    assert!(matches!(&d, Ok(w) if *w == c), "char cursor round trip");
    std::mem::forget(e);
}

harnesses! {
    #[kani::unwind(5)] #[kani::stub(std::fmt::format, crate::stubs::fmt_stub)] c32_gate0 => gate0;
    #[kani::unwind(5)] #[kani::stub(std::fmt::format, crate::stubs::fmt_stub)] c32_gate1 => gate1;
    #[kani::unwind(5)] #[kani::stub(std::fmt::format, crate::stubs::fmt_stub)] c32_gate2 => gate2;
    #[kani::unwind(6)] #[kani::stub(std::fmt::format, crate::stubs::fmt_stub)] c32_gate3 => gate3;
    #[kani::unwind(5)] #[kani::stub(std::fmt::format, crate::stubs::fmt_stub)] c32_gate2_before => gate2_before;
    #[kani::unwind(5)] #[kani::stub(std::fmt::format, crate::stubs::fmt_stub)] c32_gate_both => gate_both;
    #[kani::unwind(6)] c32_rt_u8 => rt_u8;
    #[kani::unwind(6)] c32_rt_i8 => rt_i8;
    #[kani::unwind(8)] c32_rt_u16 => rt_u16;
    #[kani::unwind(8)] c32_rt_i16 => rt_i16;
    #[kani::unwind(13)] c32_rt_u32 => rt_u32;
    #[kani::unwind(13)] c32_rt_i32 => rt_i32;
    #[kani::unwind(7)] c32_rt_bool => rt_bool;
    #[kani::unwind(6)] c32_rt_char_ascii => rt_char_ascii;
}
