//! C33 — dynamic schemas build exactly when the type system is valid: the type-compatibility
//! kernels. Real code: `TypeRef::is_subtype` (src/dynamic/type_ref.rs) and
//! `check_is_valid_implementation` (src/dynamic/check.rs), the function `SchemaInner::check`
//! calls for every `implements` edge of objects and interfaces.
use async_graphql::dynamic::{Field, FieldFuture, FieldValue, InputValue, Interface, InterfaceField, Object, TypeRef};
use async_graphql::verif_hooks::dynamic::{check_object_implements, typeref_is_subtype};

use crate::vsrc::Src;

/// Type shapes: wrappers from the outside in (1 = NonNull, 2 = List) around a name.
pub const SHAPES: [[u8; 4]; 9] = [
    [0, 0, 0, 0], // T
    [1, 0, 0, 0], // T!
    [2, 0, 0, 0], // [T]
    [1, 2, 0, 0], // [T]!
    [2, 1, 0, 0], // [T!]
    [1, 2, 1, 0], // [T!]!
    [2, 2, 0, 0], // [[T]]
    [2, 1, 2, 0], // [[T]!]
    [1, 2, 2, 1], // [[T!]]!
];

fn build(shape: &[u8; 4], name: &'static str) -> TypeRef {
    let n = || TypeRef::Named(std::borrow::Cow::Borrowed(name));
    let nn = |t: TypeRef| TypeRef::NonNull(Box::new(t));
    let l = |t: TypeRef| TypeRef::List(Box::new(t));
    // straight-line construction per shape (keeps every discriminant concrete)
    match (shape[0], shape[1], shape[2], shape[3]) {
        (0, _, _, _) => n(),
        (1, 0, _, _) => nn(n()),
        (2, 0, _, _) => l(n()),
        (1, 2, 0, _) => nn(l(n())),
        (2, 1, 0, _) => l(nn(n())),
        (1, 2, 1, 0) => nn(l(nn(n()))),
        (2, 2, 0, _) => l(l(n())),
        (2, 1, 2, 0) => l(nn(l(n()))),
        _ => nn(l(l(nn(n())))),
    }
}

/// Spec: IsValidImplementationFieldType(fieldType f, implementedFieldType m), named types
/// compared by name (no interface/union covariance – the relation the code documents).
pub fn valid_impl_type(f: &[u8; 4], fname: bool, m: &[u8; 4], mname: bool) -> bool {
    let mut fi = 0;
    let mut mi = 0;
    let mut steps = 0;
    while steps < 5 {
        let fw = if fi < 4 { f[fi] } else { 0 };
        let mw = if mi < 4 { m[mi] } else { 0 };
        if fw == 1 {
            fi += 1;
            if mw == 1 {
                mi += 1;
            }
        } else if fw == 2 && mw == 2 {
            fi += 1;
            mi += 1;
        } else {
            return fw == 0 && mw == 0 && fname == mname;
        }
        steps += 1;
    }
    false
}

/// `sup.is_subtype(sub)` is exactly "sub is a valid implementation type for sup", for the
/// supertype shape I and subtype shape J (one harness per pair), names solver-chosen.
fn typeref<S: Src, const I: usize, const J: usize>(s: &mut S) {
    let an = s.bool();
    let bn = s.bool();
    let sup = std::mem::ManuallyDrop::new(build(&SHAPES[I], if an { "A" } else { "B" }));
    let sub = std::mem::ManuallyDrop::new(build(&SHAPES[J], if bn { "A" } else { "B" }));
    cover!(an == bn, "same name");
    cover!(an != bn, "different names");
    let want = valid_impl_type(&SHAPES[J], bn, &SHAPES[I], an);
    let got = typeref_is_subtype(&sup, &sub);
    assert!(got == want, "TypeRef::is_subtype disagrees with IsValidImplementationFieldType");
}
pub fn typeref_0_0<S: Src>(s: &mut S) { typeref::<S, 0, 0>(s) }
pub fn typeref_0_1<S: Src>(s: &mut S) { typeref::<S, 0, 1>(s) }
pub fn typeref_0_2<S: Src>(s: &mut S) { typeref::<S, 0, 2>(s) }
pub fn typeref_0_3<S: Src>(s: &mut S) { typeref::<S, 0, 3>(s) }
pub fn typeref_0_4<S: Src>(s: &mut S) { typeref::<S, 0, 4>(s) }
pub fn typeref_0_5<S: Src>(s: &mut S) { typeref::<S, 0, 5>(s) }
pub fn typeref_0_6<S: Src>(s: &mut S) { typeref::<S, 0, 6>(s) }
pub fn typeref_0_7<S: Src>(s: &mut S) { typeref::<S, 0, 7>(s) }
pub fn typeref_0_8<S: Src>(s: &mut S) { typeref::<S, 0, 8>(s) }
pub fn typeref_1_0<S: Src>(s: &mut S) { typeref::<S, 1, 0>(s) }
pub fn typeref_1_1<S: Src>(s: &mut S) { typeref::<S, 1, 1>(s) }
pub fn typeref_1_2<S: Src>(s: &mut S) { typeref::<S, 1, 2>(s) }
pub fn typeref_1_3<S: Src>(s: &mut S) { typeref::<S, 1, 3>(s) }
pub fn typeref_1_4<S: Src>(s: &mut S) { typeref::<S, 1, 4>(s) }
pub fn typeref_1_5<S: Src>(s: &mut S) { typeref::<S, 1, 5>(s) }
pub fn typeref_1_6<S: Src>(s: &mut S) { typeref::<S, 1, 6>(s) }
pub fn typeref_1_7<S: Src>(s: &mut S) { typeref::<S, 1, 7>(s) }
pub fn typeref_1_8<S: Src>(s: &mut S) { typeref::<S, 1, 8>(s) }
pub fn typeref_2_0<S: Src>(s: &mut S) { typeref::<S, 2, 0>(s) }
pub fn typeref_2_1<S: Src>(s: &mut S) { typeref::<S, 2, 1>(s) }
pub fn typeref_2_2<S: Src>(s: &mut S) { typeref::<S, 2, 2>(s) }
pub fn typeref_2_3<S: Src>(s: &mut S) { typeref::<S, 2, 3>(s) }
pub fn typeref_2_4<S: Src>(s: &mut S) { typeref::<S, 2, 4>(s) }
pub fn typeref_2_5<S: Src>(s: &mut S) { typeref::<S, 2, 5>(s) }
pub fn typeref_2_6<S: Src>(s: &mut S) { typeref::<S, 2, 6>(s) }
pub fn typeref_2_7<S: Src>(s: &mut S) { typeref::<S, 2, 7>(s) }
pub fn typeref_2_8<S: Src>(s: &mut S) { typeref::<S, 2, 8>(s) }
pub fn typeref_3_0<S: Src>(s: &mut S) { typeref::<S, 3, 0>(s) }
pub fn typeref_3_1<S: Src>(s: &mut S) { typeref::<S, 3, 1>(s) }
pub fn typeref_3_2<S: Src>(s: &mut S) { typeref::<S, 3, 2>(s) }
pub fn typeref_3_3<S: Src>(s: &mut S) { typeref::<S, 3, 3>(s) }
pub fn typeref_3_4<S: Src>(s: &mut S) { typeref::<S, 3, 4>(s) }
pub fn typeref_3_5<S: Src>(s: &mut S) { typeref::<S, 3, 5>(s) }
pub fn typeref_3_6<S: Src>(s: &mut S) { typeref::<S, 3, 6>(s) }
pub fn typeref_3_7<S: Src>(s: &mut S) { typeref::<S, 3, 7>(s) }
pub fn typeref_3_8<S: Src>(s: &mut S) { typeref::<S, 3, 8>(s) }
pub fn typeref_4_0<S: Src>(s: &mut S) { typeref::<S, 4, 0>(s) }
pub fn typeref_4_1<S: Src>(s: &mut S) { typeref::<S, 4, 1>(s) }
pub fn typeref_4_2<S: Src>(s: &mut S) { typeref::<S, 4, 2>(s) }
pub fn typeref_4_3<S: Src>(s: &mut S) { typeref::<S, 4, 3>(s) }
pub fn typeref_4_4<S: Src>(s: &mut S) { typeref::<S, 4, 4>(s) }
pub fn typeref_4_5<S: Src>(s: &mut S) { typeref::<S, 4, 5>(s) }
pub fn typeref_4_6<S: Src>(s: &mut S) { typeref::<S, 4, 6>(s) }
pub fn typeref_4_7<S: Src>(s: &mut S) { typeref::<S, 4, 7>(s) }
pub fn typeref_4_8<S: Src>(s: &mut S) { typeref::<S, 4, 8>(s) }
pub fn typeref_5_0<S: Src>(s: &mut S) { typeref::<S, 5, 0>(s) }
pub fn typeref_5_1<S: Src>(s: &mut S) { typeref::<S, 5, 1>(s) }
pub fn typeref_5_2<S: Src>(s: &mut S) { typeref::<S, 5, 2>(s) }
pub fn typeref_5_3<S: Src>(s: &mut S) { typeref::<S, 5, 3>(s) }
pub fn typeref_5_4<S: Src>(s: &mut S) { typeref::<S, 5, 4>(s) }
pub fn typeref_5_5<S: Src>(s: &mut S) { typeref::<S, 5, 5>(s) }
pub fn typeref_5_6<S: Src>(s: &mut S) { typeref::<S, 5, 6>(s) }
pub fn typeref_5_7<S: Src>(s: &mut S) { typeref::<S, 5, 7>(s) }
pub fn typeref_5_8<S: Src>(s: &mut S) { typeref::<S, 5, 8>(s) }
pub fn typeref_6_0<S: Src>(s: &mut S) { typeref::<S, 6, 0>(s) }
pub fn typeref_6_1<S: Src>(s: &mut S) { typeref::<S, 6, 1>(s) }
pub fn typeref_6_2<S: Src>(s: &mut S) { typeref::<S, 6, 2>(s) }
pub fn typeref_6_3<S: Src>(s: &mut S) { typeref::<S, 6, 3>(s) }
pub fn typeref_6_4<S: Src>(s: &mut S) { typeref::<S, 6, 4>(s) }
pub fn typeref_6_5<S: Src>(s: &mut S) { typeref::<S, 6, 5>(s) }
pub fn typeref_6_6<S: Src>(s: &mut S) { typeref::<S, 6, 6>(s) }
pub fn typeref_6_7<S: Src>(s: &mut S) { typeref::<S, 6, 7>(s) }
pub fn typeref_6_8<S: Src>(s: &mut S) { typeref::<S, 6, 8>(s) }
pub fn typeref_7_0<S: Src>(s: &mut S) { typeref::<S, 7, 0>(s) }
pub fn typeref_7_1<S: Src>(s: &mut S) { typeref::<S, 7, 1>(s) }
pub fn typeref_7_2<S: Src>(s: &mut S) { typeref::<S, 7, 2>(s) }
pub fn typeref_7_3<S: Src>(s: &mut S) { typeref::<S, 7, 3>(s) }
pub fn typeref_7_4<S: Src>(s: &mut S) { typeref::<S, 7, 4>(s) }
pub fn typeref_7_5<S: Src>(s: &mut S) { typeref::<S, 7, 5>(s) }
pub fn typeref_7_6<S: Src>(s: &mut S) { typeref::<S, 7, 6>(s) }
pub fn typeref_7_7<S: Src>(s: &mut S) { typeref::<S, 7, 7>(s) }
pub fn typeref_7_8<S: Src>(s: &mut S) { typeref::<S, 7, 8>(s) }
pub fn typeref_8_0<S: Src>(s: &mut S) { typeref::<S, 8, 0>(s) }
pub fn typeref_8_1<S: Src>(s: &mut S) { typeref::<S, 8, 1>(s) }
pub fn typeref_8_2<S: Src>(s: &mut S) { typeref::<S, 8, 2>(s) }
pub fn typeref_8_3<S: Src>(s: &mut S) { typeref::<S, 8, 3>(s) }
pub fn typeref_8_4<S: Src>(s: &mut S) { typeref::<S, 8, 4>(s) }
pub fn typeref_8_5<S: Src>(s: &mut S) { typeref::<S, 8, 5>(s) }
pub fn typeref_8_6<S: Src>(s: &mut S) { typeref::<S, 8, 6>(s) }
pub fn typeref_8_7<S: Src>(s: &mut S) { typeref::<S, 8, 7>(s) }
pub fn typeref_8_8<S: Src>(s: &mut S) { typeref::<S, 8, 8>(s) }

fn resolver_field(name: &'static str, ty: TypeRef) -> Field {
    Field::new(name, ty, |_ctx| FieldFuture::new(async { Ok(None::<FieldValue>) }))
}

/// An object whose only field `f` has type shape O implements an interface whose field `f`
/// has type shape M: the implementation check accepts it iff O is a valid implementation
/// type for M (spec: the object's field type is equal to or a subtype of the interface's).
fn impl_field<S: Src, const O: usize, const M: usize>(s: &mut S) {
    let on = s.bool();
    let mn = s.bool();
    let obj = std::mem::ManuallyDrop::new(
        Object::new("Obj").field(resolver_field("f", build(&SHAPES[O], if on { "A" } else { "B" }))),
    );
    let iface = std::mem::ManuallyDrop::new(
        Interface::new("Iface").field(InterfaceField::new("f", build(&SHAPES[M], if mn { "A" } else { "B" }))),
    );
    let want = valid_impl_type(&SHAPES[O], on, &SHAPES[M], mn);
    let r = check_object_implements(&obj, &iface);
    let got = r.is_ok();
    std::mem::forget(r);
    cover!(on == mn, "same name");
    cover!(on != mn, "different names");
    if got != want {
        s.key("implementation-field-type-direction");
    }
    assert!(got == want, "interface implementation check disagrees with the spec on the field type");
}
pub fn impl_field_0_0<S: Src>(s: &mut S) { impl_field::<S, 0, 0>(s) }
pub fn impl_field_1_0<S: Src>(s: &mut S) { impl_field::<S, 1, 0>(s) }
pub fn impl_field_0_1<S: Src>(s: &mut S) { impl_field::<S, 0, 1>(s) }
pub fn impl_field_1_1<S: Src>(s: &mut S) { impl_field::<S, 1, 1>(s) }
pub fn impl_field_4_2<S: Src>(s: &mut S) { impl_field::<S, 4, 2>(s) }
pub fn impl_field_2_4<S: Src>(s: &mut S) { impl_field::<S, 2, 4>(s) }
pub fn impl_field_3_2<S: Src>(s: &mut S) { impl_field::<S, 3, 2>(s) }
pub fn impl_field_2_0<S: Src>(s: &mut S) { impl_field::<S, 2, 0>(s) }

/// The same for one argument `a` of the field: the spec requires the implementing field's
/// argument to have the same type as the interface field's argument (invariant).
fn impl_arg<S: Src, const O: usize, const M: usize>(s: &mut S) {
    let on = s.bool();
    let mn = s.bool();
    let obj = std::mem::ManuallyDrop::new(Object::new("Obj").field(
        resolver_field("f", TypeRef::named("R")).argument(InputValue::new("a", build(&SHAPES[O], if on { "A" } else { "B" }))),
    ));
    let iface = std::mem::ManuallyDrop::new(Interface::new("Iface").field(
        InterfaceField::new("f", TypeRef::named("R")).argument(InputValue::new("a", build(&SHAPES[M], if mn { "A" } else { "B" }))),
    ));
    let want = O == M && on == mn;
    let r = check_object_implements(&obj, &iface);
    let got = r.is_ok();
    std::mem::forget(r);
    cover!(on == mn, "same name");
    if got != want {
        s.key("implementation-argument-type-not-invariant");
    }
    assert!(got == want, "interface implementation check disagrees with the spec on the argument type");
}
pub fn impl_arg_0_0<S: Src>(s: &mut S) { impl_arg::<S, 0, 0>(s) }
pub fn impl_arg_1_0<S: Src>(s: &mut S) { impl_arg::<S, 1, 0>(s) }
pub fn impl_arg_0_1<S: Src>(s: &mut S) { impl_arg::<S, 0, 1>(s) }
pub fn impl_arg_2_4<S: Src>(s: &mut S) { impl_arg::<S, 2, 4>(s) }

harnesses! {
    #[kani::unwind(5)] c33_typeref_0_0 => typeref_0_0;
    #[kani::unwind(5)] c33_typeref_0_1 => typeref_0_1;
    #[kani::unwind(5)] c33_typeref_0_2 => typeref_0_2;
    #[kani::unwind(5)] c33_typeref_0_3 => typeref_0_3;
    #[kani::unwind(5)] c33_typeref_0_4 => typeref_0_4;
    #[kani::unwind(5)] c33_typeref_0_5 => typeref_0_5;
    #[kani::unwind(5)] c33_typeref_0_6 => typeref_0_6;
    #[kani::unwind(5)] c33_typeref_0_7 => typeref_0_7;
    #[kani::unwind(5)] c33_typeref_0_8 => typeref_0_8;
    #[kani::unwind(5)] c33_typeref_1_0 => typeref_1_0;
    #[kani::unwind(5)] c33_typeref_1_1 => typeref_1_1;
    #[kani::unwind(5)] c33_typeref_1_2 => typeref_1_2;
    #[kani::unwind(5)] c33_typeref_1_3 => typeref_1_3;
    #[kani::unwind(5)] c33_typeref_1_4 => typeref_1_4;
    #[kani::unwind(5)] c33_typeref_1_5 => typeref_1_5;
    #[kani::unwind(5)] c33_typeref_1_6 => typeref_1_6;
    #[kani::unwind(5)] c33_typeref_1_7 => typeref_1_7;
    #[kani::unwind(5)] c33_typeref_1_8 => typeref_1_8;
    #[kani::unwind(5)] c33_typeref_2_0 => typeref_2_0;
    #[kani::unwind(5)] c33_typeref_2_1 => typeref_2_1;
    #[kani::unwind(5)] c33_typeref_2_2 => typeref_2_2;
    #[kani::unwind(5)] c33_typeref_2_3 => typeref_2_3;
    #[kani::unwind(5)] c33_typeref_2_4 => typeref_2_4;
    #[kani::unwind(5)] c33_typeref_2_5 => typeref_2_5;
    #[kani::unwind(5)] c33_typeref_2_6 => typeref_2_6;
    #[kani::unwind(5)] c33_typeref_2_7 => typeref_2_7;
    #[kani::unwind(5)] c33_typeref_2_8 => typeref_2_8;
    #[kani::unwind(5)] c33_typeref_3_0 => typeref_3_0;
    #[kani::unwind(5)] c33_typeref_3_1 => typeref_3_1;
    #[kani::unwind(5)] c33_typeref_3_2 => typeref_3_2;
    #[kani::unwind(5)] c33_typeref_3_3 => typeref_3_3;
    #[kani::unwind(5)] c33_typeref_3_4 => typeref_3_4;
    #[kani::unwind(5)] c33_typeref_3_5 => typeref_3_5;
    #[kani::unwind(5)] c33_typeref_3_6 => typeref_3_6;
    #[kani::unwind(5)] c33_typeref_3_7 => typeref_3_7;
    #[kani::unwind(5)] c33_typeref_3_8 => typeref_3_8;
    #[kani::unwind(5)] c33_typeref_4_0 => typeref_4_0;
    #[kani::unwind(5)] c33_typeref_4_1 => typeref_4_1;
    #[kani::unwind(5)] c33_typeref_4_2 => typeref_4_2;
    #[kani::unwind(5)] c33_typeref_4_3 => typeref_4_3;
    #[kani::unwind(5)] c33_typeref_4_4 => typeref_4_4;
    #[kani::unwind(5)] c33_typeref_4_5 => typeref_4_5;
    #[kani::unwind(5)] c33_typeref_4_6 => typeref_4_6;
    #[kani::unwind(5)] c33_typeref_4_7 => typeref_4_7;
    #[kani::unwind(5)] c33_typeref_4_8 => typeref_4_8;
    #[kani::unwind(5)] c33_typeref_5_0 => typeref_5_0;
    #[kani::unwind(5)] c33_typeref_5_1 => typeref_5_1;
    #[kani::unwind(5)] c33_typeref_5_2 => typeref_5_2;
    #[kani::unwind(5)] c33_typeref_5_3 => typeref_5_3;
    #[kani::unwind(5)] c33_typeref_5_4 => typeref_5_4;
    #[kani::unwind(5)] c33_typeref_5_5 => typeref_5_5;
    #[kani::unwind(5)] c33_typeref_5_6 => typeref_5_6;
    #[kani::unwind(5)] c33_typeref_5_7 => typeref_5_7;
    #[kani::unwind(5)] c33_typeref_5_8 => typeref_5_8;
    #[kani::unwind(5)] c33_typeref_6_0 => typeref_6_0;
    #[kani::unwind(5)] c33_typeref_6_1 => typeref_6_1;
    #[kani::unwind(5)] c33_typeref_6_2 => typeref_6_2;
    #[kani::unwind(5)] c33_typeref_6_3 => typeref_6_3;
    #[kani::unwind(5)] c33_typeref_6_4 => typeref_6_4;
    #[kani::unwind(5)] c33_typeref_6_5 => typeref_6_5;
    #[kani::unwind(5)] c33_typeref_6_6 => typeref_6_6;
    #[kani::unwind(5)] c33_typeref_6_7 => typeref_6_7;
    #[kani::unwind(5)] c33_typeref_6_8 => typeref_6_8;
    #[kani::unwind(5)] c33_typeref_7_0 => typeref_7_0;
    #[kani::unwind(5)] c33_typeref_7_1 => typeref_7_1;
    #[kani::unwind(5)] c33_typeref_7_2 => typeref_7_2;
    #[kani::unwind(5)] c33_typeref_7_3 => typeref_7_3;
    #[kani::unwind(5)] c33_typeref_7_4 => typeref_7_4;
    #[kani::unwind(5)] c33_typeref_7_5 => typeref_7_5;
    #[kani::unwind(5)] c33_typeref_7_6 => typeref_7_6;
    #[kani::unwind(5)] c33_typeref_7_7 => typeref_7_7;
    #[kani::unwind(5)] c33_typeref_7_8 => typeref_7_8;
    #[kani::unwind(5)] c33_typeref_8_0 => typeref_8_0;
    #[kani::unwind(5)] c33_typeref_8_1 => typeref_8_1;
    #[kani::unwind(5)] c33_typeref_8_2 => typeref_8_2;
    #[kani::unwind(5)] c33_typeref_8_3 => typeref_8_3;
    #[kani::unwind(5)] c33_typeref_8_4 => typeref_8_4;
    #[kani::unwind(5)] c33_typeref_8_5 => typeref_8_5;
    #[kani::unwind(5)] c33_typeref_8_6 => typeref_8_6;
    #[kani::unwind(5)] c33_typeref_8_7 => typeref_8_7;
    #[kani::unwind(5)] c33_typeref_8_8 => typeref_8_8;
    #[kani::unwind(8)] #[kani::stub(std::fmt::format, crate::stubs::fmt_stub)] #[kani::stub(std::hash::RandomState::new, crate::stubs::rs_new)] c33_impl_field_0_0 => impl_field_0_0;
    #[kani::unwind(8)] #[kani::stub(std::fmt::format, crate::stubs::fmt_stub)] #[kani::stub(std::hash::RandomState::new, crate::stubs::rs_new)] c33_impl_field_1_0 => impl_field_1_0;
    #[kani::unwind(8)] #[kani::stub(std::fmt::format, crate::stubs::fmt_stub)] #[kani::stub(std::hash::RandomState::new, crate::stubs::rs_new)] c33_impl_field_0_1 => impl_field_0_1;
    #[kani::unwind(8)] #[kani::stub(std::fmt::format, crate::stubs::fmt_stub)] #[kani::stub(std::hash::RandomState::new, crate::stubs::rs_new)] c33_impl_field_1_1 => impl_field_1_1;
    #[kani::unwind(8)] #[kani::stub(std::fmt::format, crate::stubs::fmt_stub)] #[kani::stub(std::hash::RandomState::new, crate::stubs::rs_new)] c33_impl_field_4_2 => impl_field_4_2;
    #[kani::unwind(8)] #[kani::stub(std::fmt::format, crate::stubs::fmt_stub)] #[kani::stub(std::hash::RandomState::new, crate::stubs::rs_new)] c33_impl_field_2_4 => impl_field_2_4;
    #[kani::unwind(8)] #[kani::stub(std::fmt::format, crate::stubs::fmt_stub)] #[kani::stub(std::hash::RandomState::new, crate::stubs::rs_new)] c33_impl_field_3_2 => impl_field_3_2;
    #[kani::unwind(8)] #[kani::stub(std::fmt::format, crate::stubs::fmt_stub)] #[kani::stub(std::hash::RandomState::new, crate::stubs::rs_new)] c33_impl_field_2_0 => impl_field_2_0;
    #[kani::unwind(8)] #[kani::stub(std::fmt::format, crate::stubs::fmt_stub)] #[kani::stub(std::hash::RandomState::new, crate::stubs::rs_new)] c33_impl_arg_0_0 => impl_arg_0_0;
    #[kani::unwind(8)] #[kani::stub(std::fmt::format, crate::stubs::fmt_stub)] #[kani::stub(std::hash::RandomState::new, crate::stubs::rs_new)] c33_impl_arg_1_0 => impl_arg_1_0;
    #[kani::unwind(8)] #[kani::stub(std::fmt::format, crate::stubs::fmt_stub)] #[kani::stub(std::hash::RandomState::new, crate::stubs::rs_new)] c33_impl_arg_0_1 => impl_arg_0_1;
    #[kani::unwind(8)] #[kani::stub(std::fmt::format, crate::stubs::fmt_stub)] #[kani::stub(std::hash::RandomState::new, crate::stubs::rs_new)] c33_impl_arg_2_4 => impl_arg_2_4;
}
