//! Kani harnesses over the main `async-graphql` crate (real code, path dependency on /repo).
#![allow(clippy::all)]
#![allow(dead_code)]

#[path = "../../common/vsrc.rs"]
#[macro_use]
pub mod vsrc;
#[path = "../../common/stubs.rs"]
pub mod stubs;

pub mod c01;
pub mod c06;
pub mod c06p;
pub mod c07;
pub mod c08;
pub mod ast;
pub mod c09;
pub mod c10;
pub mod c12;
pub mod c17;
pub mod c20;
pub mod c21;
pub mod c22;
pub mod strdec;
pub mod c32;
pub mod c33;

pub fn tables() -> Vec<(&'static str, vsrc::NativeFn)> {
    let mut t = Vec::new();
    t.extend(c01::table());
    t.extend(c06::table());
    t.extend(c06p::table());
    t.extend(c07::table());
    t.extend(c07::enums::table());
    t.extend(c08::table());
    t.extend(c09::table());
    t.extend(c10::table());
    t.extend(c12::table());
    t.extend(c17::table());
    t.extend(c20::table());
    t.extend(c20::visitor::table());
    t.extend(c20::field::table());
    t.extend(c21::table());
    t.extend(c22::table());
    t.extend(c32::table());
    t.extend(c33::table());
    t
}
