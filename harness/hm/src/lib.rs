//! Kani harnesses over the main `async-graphql` crate (real code, path dependency on /repo).
#![allow(clippy::all)]
#![allow(dead_code)]

#[path = "../../common/vsrc.rs"]
#[macro_use]
pub mod vsrc;
#[path = "../../common/stubs.rs"]
pub mod stubs;

pub mod c07;
pub mod c08;
pub mod c09;
pub mod c20;
pub mod c32;
pub mod c33;

pub fn tables() -> Vec<(&'static str, vsrc::NativeFn)> {
    let mut t = Vec::new();
    t.extend(c07::table());
    t.extend(c08::table());
    t.extend(c09::table());
    t.extend(c20::table());
    t.extend(c32::table());
    t.extend(c33::table());
    t
}
