//! Reference decoder of GraphQL `string_content` (the crate's own grammar rule, see
//! parser/src/graphql.pest): escapes + raw characters. Shared oracle of the SDL / printer
//! harnesses. Loop bound: the text length (callers use texts of at most 8 bytes).

/// Decodes `t` into at most 4 scalar values; None if `t` is not valid string content.
pub fn decode(t: &[u8], out: &mut [u32; 4]) -> Option<usize> {
    let mut i = 0;
    let mut n = 0;
    while i < t.len() {
        if n >= 4 {
            return None;
        }
        let c = t[i];
        if c == b'"' || c == b'\n' || c == b'\r' {
            return None;
        }
        if c == b'\\' {
            if i + 1 >= t.len() {
                return None;
            }
            let v = match t[i + 1] {
                b'"' => 0x22,
                b'\\' => 0x5C,
                b'/' => 0x2F,
                b'b' => 0x08,
                b'f' => 0x0C,
                b'n' => 0x0A,
                b'r' => 0x0D,
                b't' => 0x09,
                _ => return None, // \uXXXX is never produced by the units under test
            };
            out[n] = v;
            n += 1;
            i += 2;
            continue;
        }
        if c < 0x80 {
            out[n] = c as u32;
            n += 1;
            i += 1;
        } else if c >= 0xC2 && c <= 0xDF && i + 1 < t.len() {
            out[n] = ((c as u32 & 0x1F) << 6) | (t[i + 1] as u32 & 0x3F);
            n += 1;
            i += 2;
        } else if c >= 0xE0 && c <= 0xEF && i + 2 < t.len() {
            out[n] = ((c as u32 & 0x0F) << 12) | ((t[i + 1] as u32 & 0x3F) << 6) | (t[i + 2] as u32 & 0x3F);
            n += 1;
            i += 3;
        } else {
            return None;
        }
    }
    Some(n)
}
