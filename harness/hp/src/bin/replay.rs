fn main() {
    #[cfg(not(kani))]
    hp::vsrc::replay_main(hp::tables());
}
