//! C13 — the parser builds the tree the document denotes: string decoding kernels.
//! Real code: `string_value`, `block_string_value` (parser/src/parse/utils.rs), called by
//! `parse_string` on the text the grammar rules `string_content` / `block_string_content` matched.
use async_graphql_parser::verif_hooks::{block_string_value, string_value};

use crate::vsrc::Src;

/// Reference recogniser + decoder for the grammar rule
/// `string_content = string_character*` (parser/src/graphql.pest) over ASCII input:
/// returns the decoded scalar values, or None if the grammar does not match the whole input.
pub fn ref_decode_ascii(b: &[u8], out: &mut [u32; 5]) -> Option<usize> {
    let mut i = 0;
    let mut n = 0;
    while i < b.len() {
        let c = b[i];
        if c == b'"' || c == b'\n' || c == b'\r' {
            return None;
        }
        if c != b'\\' {
            out[n] = c as u32;
            n += 1;
            i += 1;
            continue;
        }
        if i + 1 >= b.len() {
            return None;
        }
        let e = b[i + 1];
        let v = match e {
            b'"' => 0x22,
            b'\\' => 0x5C,
            b'/' => 0x2F,
            b'b' => 0x08,
            b'f' => 0x0C,
            b'n' => 0x0A,
            b'r' => 0x0D,
            b't' => 0x09,
            b'u' => {
                if i + 5 >= b.len() {
                    return None;
                }
                let mut v: u32 = 0;
                macro_rules! hex {
                    ($k:expr) => {{
                        let h = b[i + 2 + $k];
                        let d = if h >= b'0' && h <= b'9' {
                            h - b'0'
                        } else if h >= b'a' && h <= b'f' {
                            h - b'a' + 10
                        } else if h >= b'A' && h <= b'F' {
                            h - b'A' + 10
                        } else {
                            return None;
                        };
                        v = v * 16 + d as u32;
                    }};
                }
                hex!(0);
                hex!(1);
                hex!(2);
                hex!(3);
                // unicode_scalar_value_hex: not a surrogate
                if v >= 0xD800 && v <= 0xDFFF {
                    return None;
                }
                out[n] = v;
                n += 1;
                i += 6;
                continue;
            }
            _ => return None,
        };
        out[n] = v;
        n += 1;
        i += 2;
    }
    Some(n)
}

/// Compares a decoded String with the expected scalar values (loop-free so that the
/// unwinding bound is determined by the real code only).
fn same(out: &String, exp: &[u32; 5], n: usize) -> bool {
    let mut buf = [0u8; 12];
    let mut len = 0;
    macro_rules! put {
        ($i:expr) => {
            if $i < n {
                let v = exp[$i];
                if v < 0x80 {
                    buf[len] = v as u8;
                    len += 1;
                } else if v < 0x800 {
                    buf[len] = 0xC0 | (v >> 6) as u8;
                    buf[len + 1] = 0x80 | (v & 0x3F) as u8;
                    len += 2;
                } else if v < 0x10000 {
                    buf[len] = 0xE0 | (v >> 12) as u8;
                    buf[len + 1] = 0x80 | ((v >> 6) & 0x3F) as u8;
                    buf[len + 2] = 0x80 | (v & 0x3F) as u8;
                    len += 3;
                } else {
                    buf[len] = 0xF0 | (v >> 18) as u8;
                    buf[len + 1] = 0x80 | ((v >> 12) & 0x3F) as u8;
                    buf[len + 2] = 0x80 | ((v >> 6) & 0x3F) as u8;
                    buf[len + 3] = 0x80 | (v & 0x3F) as u8;
                    len += 4;
                }
            }
        };
    }
    put!(0);
    put!(1);
    put!(2);
    put!(3);
    if out.len() != len {
        return false;
    }
    let ob = out.as_bytes();
    macro_rules! cmp {
        ($i:expr) => {
            if $i < len && ob[$i] != buf[$i] {
                return false;
            }
        };
    }
    cmp!(0);
    cmp!(1);
    cmp!(2);
    cmp!(3);
    cmp!(4);
    cmp!(5);
    cmp!(6);
    cmp!(7);
    true
}

/// Every ASCII input of exactly L bytes that the grammar accepts as string content decodes to
/// the StringValue the spec defines, without panicking.
fn string_ascii<S: Src, const L: usize>(s: &mut S) {
    let mut b = [0u8; L];
    let mut i = 0;
    while i < L {
        b[i] = s.u8();
        s.assume(b[i] < 0x80);
        i += 1;
    }
    let mut exp = [0u32; 5];
    let n = match ref_decode_ascii(&b, &mut exp) {
        Some(n) => n,
        None => {
            s.assume(false);
            0
        }
    };
    cover!(n < L || L == 1, "contains an escape (needs 2 bytes)");
    cover!(n == L, "no escape");
    let text: &str = unsafe { std::str::from_utf8_unchecked(&b) };
    let out = string_value(text);
    assert!(same(&out, &exp, n), "decoded string differs from the denoted value");
    std::mem::forget(out);
}
pub fn string_ascii1<S: Src>(s: &mut S) { string_ascii::<S, 1>(s) }
pub fn string_ascii2<S: Src>(s: &mut S) { string_ascii::<S, 2>(s) }
pub fn string_ascii3<S: Src>(s: &mut S) { string_ascii::<S, 3>(s) }
pub fn string_ascii4<S: Src>(s: &mut S) { string_ascii::<S, 4>(s) }

/// `\uXXXX` with every combination of four hex digits (either case) the grammar admits,
/// optionally followed by one plain ASCII character.
fn string_unicode_escape<S: Src, const TAIL: usize>(s: &mut S) {
    let mut b = [0u8; 7];
    b[0] = b'\\';
    b[1] = b'u';
    b[2] = s.u8();
    b[3] = s.u8();
    b[4] = s.u8();
    b[5] = s.u8();
    if TAIL == 1 {
        b[6] = s.u8();
        s.assume(b[6] >= 0x20 && b[6] < 0x7F && b[6] != b'"' && b[6] != b'\\');
    }
    let mut exp = [0u32; 5];
    let n = match ref_decode_ascii(&b[..6 + TAIL], &mut exp) {
        Some(n) => n,
        None => {
            s.assume(false);
            0
        }
    };
    cover!(exp[0] < 0x20, "control character");
    cover!(exp[0] >= 0xE000, "above the surrogates");
    cover!(exp[0] >= 0xA0 && exp[0] < 0x800, "two-byte scalar");
    let text: &str = unsafe { std::str::from_utf8_unchecked(&b[..6 + TAIL]) };
    let out = string_value(text);
    assert!(same(&out, &exp, n), "decoded escape differs from the denoted value");
    std::mem::forget(out);
}
pub fn string_unicode_escape0<S: Src>(s: &mut S) { string_unicode_escape::<S, 0>(s) }
pub fn string_unicode_escape1<S: Src>(s: &mut S) { string_unicode_escape::<S, 1>(s) }

/// One arbitrary non-ASCII scalar value (2-, 3- or 4-byte), followed by one ASCII character
/// when it is shorter than 4 bytes, is passed through unchanged (input <= 4 bytes).
pub fn string_nonascii<S: Src>(s: &mut S) {
    let c = s.char();
    s.assume(c as u32 >= 0x80);
    let mut buf = [0u8; 4];
    let mut exp = [0u32; 5];
    let mut len = c.encode_utf8(&mut buf).len();
    exp[0] = c as u32;
    let mut n = 1;
    if len < 4 {
        buf[len] = b'z';
        len += 1;
        exp[1] = 'z' as u32;
        n = 2;
    }
    cover!(c.len_utf8() == 4, "four-byte scalar");
    cover!(c.len_utf8() == 2, "two-byte scalar");
    let text: &str = unsafe { std::str::from_utf8_unchecked(&buf[..len]) };
    let out = string_value(text);
    assert!(same(&out, &exp, n), "non-ASCII character changed");
    std::mem::forget(out);
}

/// Block strings: every raw block string of exactly L bytes over {' ', LF, CR, 'a', '"', '\\'}
/// that the grammar rule `block_string_content` admits (no unescaped `"""`) has the value
/// the spec's BlockStringValue algorithm gives. Reference implementation below.
const BALPHA: &[u8] = b" \n\ra";

fn block_raw<S: Src, const L: usize>(s: &mut S) {
    let mut b = [0u8; L];
    let mut i = 0;
    while i < L {
        let k = s.below(BALPHA.len());
        b[i] = BALPHA[k];
        i += 1;
    }
    // --- reference BlockStringValue over the byte array (lines split at LF, CR LF, CR)
    let mut lstart = [0usize; 8];
    let mut lend = [0usize; 8];
    let mut nl = 0;
    let mut cur = 0;
    let mut i = 0;
    while i < L {
        if b[i] == b'\n' || b[i] == b'\r' {
            lstart[nl] = cur;
            lend[nl] = i;
            nl += 1;
            if b[i] == b'\r' && i + 1 < L && b[i + 1] == b'\n' {
                i += 1;
            }
            cur = i + 1;
        }
        i += 1;
    }
    lstart[nl] = cur;
    lend[nl] = L;
    nl += 1;
    // common indent over all lines but the first that contain a non-whitespace character
    let mut common: usize = usize::MAX;
    let mut first: usize = usize::MAX;
    let mut last: usize = usize::MAX;
    let mut li = 0;
    while li < 8 {
        if li < nl {
            let mut ind = 0;
            let mut j = lstart[li];
            while j < lend[li] && b[j] == b' ' {
                ind += 1;
                j += 1;
            }
            let has_content = j < lend[li];
            if has_content {
                if li > 0 && ind < common {
                    common = ind;
                }
                if first == usize::MAX {
                    first = li;
                }
                last = li;
            }
        }
        li += 1;
    }
    let mut exp = [0u8; 8];
    let mut elen = 0;
    let mut li = 0;
    while li < 8 {
        if li < nl && first != usize::MAX && li >= first && li <= last {
            if li > first {
                exp[elen] = b'\n';
                elen += 1;
            }
            let mut j = lstart[li];
            if li > 0 && common != usize::MAX {
                // "remove commonIndent characters from the beginning of the line"
                let mut k = 0;
                while k < common && j < lend[li] {
                    j += 1;
                    k += 1;
                }
            }
            while j < lend[li] {
                exp[elen] = b[j];
                elen += 1;
                j += 1;
            }
        }
        li += 1;
    }
    cover!(nl >= 3 && first != usize::MAX && first > 0, "leading blank line removed");
    cover!(common != usize::MAX && common > 0, "a common indent is removed");
    let text: &str = unsafe { std::str::from_utf8_unchecked(&b) };
    let out = block_string_value(text);
    let ob = out.as_bytes();
    let mut ok = out.len() == elen;
    let mut i = 0;
    while i < 8 {
        if ok && i < elen && ob[i] != exp[i] {
            ok = false;
        }
        i += 1;
    }
    if !ok {
        s.key("block-string-mismatch");
    }
    assert!(ok, "block string value differs from the spec's BlockStringValue");
    std::mem::forget(out);
}
pub fn block_raw2<S: Src>(s: &mut S) { block_raw::<S, 2>(s) }
pub fn block_raw3<S: Src>(s: &mut S) { block_raw::<S, 3>(s) }
pub fn block_raw4<S: Src>(s: &mut S) { block_raw::<S, 4>(s) }

harnesses! {
    #[kani::unwind(3)] c13_string_ascii1 => string_ascii1;
    #[kani::unwind(4)] c13_string_ascii2 => string_ascii2;
    #[kani::unwind(5)] c13_string_ascii3 => string_ascii3;
    #[kani::unwind(6)] c13_string_ascii4 => string_ascii4;
    #[kani::unwind(6)] c13_string_nonascii => string_nonascii;
    #[kani::unwind(10)] c13_block_raw2 => block_raw2;
    #[kani::unwind(10)] c13_block_raw3 => block_raw3;
    #[kani::unwind(10)] c13_block_raw4 => block_raw4;
}

// ---------------------------------------------------------------------------------------
// Type expressions: `Type::new` (parser/src/types/mod.rs), called by `parse_type` on the text
// the grammar rule `type_` matched.
pub mod types {
    use async_graphql_parser::types::{BaseType, Type};

    use crate::vsrc::Src;

    /// Shapes from the outside in: 1 = non-null marker, 2 = list; name = two characters, the
    /// first solver-chosen, the second the concrete 'Z' (keeps the suffix tests concrete).
    pub const SHAPES: [(&str, [u8; 4]); 7] = [
        ("nZ", [0, 0, 0, 0]),
        ("nZ!", [1, 0, 0, 0]),
        ("[nZ]", [2, 0, 0, 0]),
        ("[nZ]!", [1, 2, 0, 0]),
        ("[nZ!]", [2, 1, 0, 0]),
        ("[nZ!]!", [1, 2, 1, 0]),
        ("[[nZ]!]", [2, 1, 2, 0]),
    ];

    /// Walks the parsed type along the expected wrappers; true iff it has exactly that shape
    /// and the expected name.
    fn matches(t: &Type, w: &[u8; 4], name: u8) -> bool {
        let mut cur = t;
        let mut i = 0;
        let mut steps = 0;
        while steps < 4 {
            let non_null = i < 4 && w[i] == 1;
            if cur.nullable == non_null {
                return false;
            }
            if non_null {
                i += 1;
            }
            let is_list = i < 4 && w[i] == 2;
            match &cur.base {
                BaseType::List(inner) => {
                    if !is_list {
                        return false;
                    }
                    i += 1;
                    cur = inner;
                }
                BaseType::Named(n) => {
                    let b = n.as_str().as_bytes();
                    return !is_list && b.len() == 2 && b[0] == name && b[1] == b'Z';
                }
            }
            steps += 1;
        }
        false
    }

    fn type_new<S: Src, const I: usize>(s: &mut S) {
        let name = s.u8();
        s.assume((name >= b'A' && name <= b'Z') || (name >= b'a' && name <= b'z') || name == b'_');
        let (text, w) = SHAPES[I];
        let tb = text.as_bytes();
        let mut buf = [0u8; 8];
        macro_rules! put {
            ($i:expr) => {
                if $i < tb.len() {
                    buf[$i] = if tb[$i] == b'n' { name } else { tb[$i] };
                }
            };
        }
        put!(0);
        put!(1);
        put!(2);
        put!(3);
        put!(4);
        put!(5);
        put!(6);
        put!(7);
        let st: &str = unsafe { std::str::from_utf8_unchecked(&buf[..tb.len()]) };
        let t = std::mem::ManuallyDrop::new(Type::new(st));
        cover!(name == b'_', "underscore name");
        cover!(name == b'q', "letter name");
        match &*t {
            Some(t) => assert!(matches(t, &w, name), "Type::new built a different type than the expression denotes"),
            None => assert!(false, "a well-formed type expression was rejected"),
        }
    }
    pub fn type_new0<S: Src>(s: &mut S) { type_new::<S, 0>(s) }
    pub fn type_new1<S: Src>(s: &mut S) { type_new::<S, 1>(s) }
    pub fn type_new2<S: Src>(s: &mut S) { type_new::<S, 2>(s) }
    pub fn type_new3<S: Src>(s: &mut S) { type_new::<S, 3>(s) }
    pub fn type_new4<S: Src>(s: &mut S) { type_new::<S, 4>(s) }
    pub fn type_new5<S: Src>(s: &mut S) { type_new::<S, 5>(s) }
    pub fn type_new6<S: Src>(s: &mut S) { type_new::<S, 6>(s) }

    harnesses! {
        #[kani::unwind(5)] #[kani::stub(core::str::slice_error_fail, crate::stubs::slice_error_fail_stub)] c13_type_new0 => type_new0;
        #[kani::unwind(5)] #[kani::stub(core::str::slice_error_fail, crate::stubs::slice_error_fail_stub)] c13_type_new1 => type_new1;
        #[kani::unwind(5)] #[kani::stub(core::str::slice_error_fail, crate::stubs::slice_error_fail_stub)] c13_type_new2 => type_new2;
        #[kani::unwind(5)] #[kani::stub(core::str::slice_error_fail, crate::stubs::slice_error_fail_stub)] c13_type_new3 => type_new3;
        #[kani::unwind(5)] #[kani::stub(core::str::slice_error_fail, crate::stubs::slice_error_fail_stub)] c13_type_new4 => type_new4;
        #[kani::unwind(5)] #[kani::stub(core::str::slice_error_fail, crate::stubs::slice_error_fail_stub)] c13_type_new5 => type_new5;
        #[kani::unwind(5)] #[kani::stub(core::str::slice_error_fail, crate::stubs::slice_error_fail_stub)] c13_type_new6 => type_new6;
    }
}
