//! C14 — reported source positions are exact line and column numbers.
//! Real code: `PositionCalculator::{new, step}` (parser/src/pos.rs), which stamps every AST node.
use async_graphql_parser::{verif_hooks::PosCalc, Pos};

use crate::vsrc::Src;

#[derive(Clone, Copy, Debug, Eq, Hash, Ord, PartialEq, PartialOrd)]
pub enum R {
    Tok,
}

// --- environment: the token whose position is asked for ---------------------------------
// Under Kani a real `pest::iterators::Pair` cannot be built (pest's state machine does not
// finish symbolic execution), so `Pair::as_span` / `Span::start` are stubbed to return the
// byte offset chosen by the harness and `step` receives a placeholder it never reads.
// The native replay builds a real pest `Pair` at that offset and runs the unstubbed code.

#[cfg(kani)]
pub static mut NEXT: usize = 0;

#[cfg(kani)]
pub fn stub_start<'i>(_s: &pest::Span<'i>) -> usize
where
    'i: 'i,
{
    unsafe { NEXT }
}

#[cfg(kani)]
pub fn stub_as_span<'i, R: pest::RuleType>(_p: &pest::iterators::Pair<'i, R>) -> pest::Span<'i>
where
    'i: 'i,
{
    match pest::Span::new("", 0, 0) {
        Some(s) => s,
        None => loop {},
    }
}

#[cfg(kani)]
fn step_at(pc: &mut PosCalc<'_>, _input: &str, pos: usize) -> Pos {
    unsafe {
        NEXT = pos;
    }
    let mu = std::mem::MaybeUninit::<pest::iterators::Pair<'static, R>>::zeroed();
    let pair: &pest::iterators::Pair<'static, R> = unsafe { &*mu.as_ptr() };
    pc.step(pair)
}

#[cfg(not(kani))]
fn step_at(pc: &mut PosCalc<'_>, input: &str, pos: usize) -> Pos {
    let pairs = pest::state::<R, _>(input, |s| {
        s.match_string(&input[..pos])
            .and_then(|s| s.rule(R::Tok, |s| Ok(s)))
    })
    .expect("prefix matches");
    let pair = pairs.into_iter().next().expect("one token pair");
    assert_eq!(pair.as_span().start(), pos);
    pc.step(&pair)
}

// --- input alphabet ---------------------------------------------------------------------

const NARROW: &[char] = &['\r', '\n', 'a'];
const WIDE: &[char] = &['\r', '\n', 'a', '\t', ',', '#', '\u{e9}', '\u{1F600}', '\u{FEFF}'];

/// Reference: 1-based line and column of the position after `upto` scalar values.
/// LF, CR LF and a lone CR each end a line; columns count scalar values.
fn reference(chars: &[char], upto: usize) -> (usize, usize) {
    let mut line = 1;
    let mut col = 1;
    let mut prev_cr = false;
    let mut i = 0;
    while i < chars.len() {
        if i < upto {
            let c = chars[i];
            if c == '\n' {
                if !prev_cr {
                    line += 1;
                }
                col = 1;
                prev_cr = false;
            } else if c == '\r' {
                line += 1;
                col = 1;
                prev_cr = true;
            } else {
                col += 1;
                prev_cr = false;
            }
        }
        i += 1;
    }
    (line, col)
}

fn has_lone_cr(chars: &[char], upto: usize) -> bool {
    let mut i = 0;
    let mut found = false;
    while i < chars.len() {
        if i < upto && chars[i] == '\r' && !(i + 1 < chars.len() && chars[i + 1] == '\n') {
            found = true;
        }
        i += 1;
    }
    found
}

/// `k` successive tokens at arbitrary non-decreasing scalar-value offsets of an input of N
/// scalar values drawn from `alpha`.
fn pos_steps<S: Src, const N: usize>(s: &mut S, alpha: &[char], k: usize) {
    let mut chars = ['a'; N];
    let mut buf = [0u8; 32];
    let mut len = 0;
    let mut starts = [0usize; 12];
    let mut i = 0;
    while i < N {
        let idx = s.below(alpha.len());
        let c = alpha[idx];
        chars[i] = c;
        starts[i] = len;
        len += c.encode_utf8(&mut buf[len..]).len();
        i += 1;
    }
    starts[N] = len;
    let input: &str = unsafe { std::str::from_utf8_unchecked(&buf[..len]) };
    let mut pc = PosCalc::new(input);
    let a = s.below(N + 1);
    let b = s.below(N + 1);
    s.assume(a <= b);
    cover!(a < b && a > 0, "two distinct interior tokens");
    cover!(b == N, "token at end of input");
    let p1 = step_at(&mut pc, input, starts[a]);
    let (l1, c1) = reference(&chars, a);
    if (p1.line, p1.column) != (l1, c1) {
        s.key(if has_lone_cr(&chars, a) { "lone-cr" } else { "other" });
    }
    assert!(p1.line == l1, "line of first token");
    assert!(p1.column == c1, "column of first token");
    if k >= 2 {
        let p2 = step_at(&mut pc, input, starts[b]);
        let (l2, c2) = reference(&chars, b);
        if (p2.line, p2.column) != (l2, c2) {
            s.key(if has_lone_cr(&chars, b) { "lone-cr" } else { "other" });
        }
        assert!(p2.line == l2, "line of second token");
        assert!(p2.column == c2, "column of second token");
    }
}

pub fn pos_narrow3<S: Src>(s: &mut S) {
    pos_steps::<S, 3>(s, NARROW, 2)
}
pub fn pos_narrow4<S: Src>(s: &mut S) {
    pos_steps::<S, 4>(s, NARROW, 2)
}
pub fn pos_wide3<S: Src>(s: &mut S) {
    pos_steps::<S, 3>(s, WIDE, 2)
}
pub fn pos_wide4<S: Src>(s: &mut S) {
    pos_steps::<S, 4>(s, WIDE, 2)
}
pub fn pos_wide5<S: Src>(s: &mut S) {
    pos_steps::<S, 5>(s, WIDE, 2)
}
pub fn pos_narrow6<S: Src>(s: &mut S) {
    pos_steps::<S, 6>(s, NARROW, 2)
}
pub fn pos_wide6<S: Src>(s: &mut S) {
    pos_steps::<S, 6>(s, WIDE, 2)
}
pub fn pos_narrow8<S: Src>(s: &mut S) {
    pos_steps::<S, 8>(s, NARROW, 2)
}

harnesses! {
    #[kani::unwind(6)] #[kani::stub(pest::Span::start, stub_start)] #[kani::stub(pest::iterators::Pair::as_span, stub_as_span)] c14_pos_narrow3 => pos_narrow3;
    #[kani::unwind(7)] #[kani::stub(pest::Span::start, stub_start)] #[kani::stub(pest::iterators::Pair::as_span, stub_as_span)] c14_pos_narrow4 => pos_narrow4;
    #[kani::unwind(6)] #[kani::stub(pest::Span::start, stub_start)] #[kani::stub(pest::iterators::Pair::as_span, stub_as_span)] c14_pos_wide3 => pos_wide3;
    #[kani::unwind(7)] #[kani::stub(pest::Span::start, stub_start)] #[kani::stub(pest::iterators::Pair::as_span, stub_as_span)] c14_pos_wide4 => pos_wide4;
    #[kani::unwind(8)] #[kani::stub(pest::Span::start, stub_start)] #[kani::stub(pest::iterators::Pair::as_span, stub_as_span)] c14_pos_wide5 => pos_wide5;
    #[kani::unwind(9)] #[kani::stub(pest::Span::start, stub_start)] #[kani::stub(pest::iterators::Pair::as_span, stub_as_span)] c14_pos_narrow6 => pos_narrow6;
    #[kani::unwind(9)] #[kani::stub(pest::Span::start, stub_start)] #[kani::stub(pest::iterators::Pair::as_span, stub_as_span)] c14_pos_wide6 => pos_wide6;
    #[kani::unwind(11)] #[kani::stub(pest::Span::start, stub_start)] #[kani::stub(pest::iterators::Pair::as_span, stub_as_span)] c14_pos_narrow8 => pos_narrow8;
}
