//! Kani harnesses over `async-graphql-parser` (+ `async-graphql-value`): real code, path
//! dependencies on /repo.
#![allow(clippy::all)]
#![allow(dead_code)]

#[path = "../../common/vsrc.rs"]
#[macro_use]
pub mod vsrc;
#[path = "../../common/stubs.rs"]
pub mod stubs;

pub mod c13;
pub mod c14;

pub fn tables() -> Vec<(&'static str, vsrc::NativeFn)> {
    let mut t = Vec::new();
    t.extend(c13::table());
    t.extend(c13::types::table());
    t.extend(c14::table());
    t
}
