fn main() {
    #[cfg(not(kani))]
    hv::vsrc::replay_main(hv::tables());
}
