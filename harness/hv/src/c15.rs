//! C15 — values print as GraphQL literals. Real code: `impl Display for ConstValue`,
//! `write_quoted`, `write_list` (value/src/lib.rs), executed through the real `core::fmt`.
use std::fmt::{self, Write};

use async_graphql_value::{ConstValue, Name, Number};

use crate::vsrc::Src;

/// Loop-free-friendly fixed sink.
pub struct Sink {
    pub buf: [u8; 24],
    pub len: usize,
    pub overflow: bool,
}
impl Sink {
    pub fn new() -> Self {
        Sink { buf: [0; 24], len: 0, overflow: false }
    }
}
impl fmt::Write for Sink {
    fn write_str(&mut self, s: &str) -> fmt::Result {
        let b = s.as_bytes();
        if self.len + b.len() > self.buf.len() {
            self.overflow = true;
            return Ok(());
        }
        self.buf[self.len..self.len + b.len()].copy_from_slice(b);
        self.len += b.len();
        Ok(())
    }
}

/// Reference decoder of GraphQL `string_content` (escapes + raw characters) for a text that
/// denotes exactly ONE scalar value; returns it, or None if the text is not valid string
/// content denoting one scalar value. Loop-free.
pub fn decode_one(t: &[u8]) -> Option<u32> {
    if t.is_empty() {
        return None;
    }
    let c = t[0];
    if c == b'"' || c == b'\n' || c == b'\r' {
        return None;
    }
    if c == b'\\' {
        if t.len() < 2 {
            return None;
        }
        let simple = match t[1] {
            b'"' => Some(0x22),
            b'\\' => Some(0x5C),
            b'/' => Some(0x2F),
            b'b' => Some(0x08),
            b'f' => Some(0x0C),
            b'n' => Some(0x0A),
            b'r' => Some(0x0D),
            b't' => Some(0x09),
            _ => None,
        };
        if let Some(v) = simple {
            return if t.len() == 2 { Some(v) } else { None };
        }
        if t[1] != b'u' || t.len() != 6 {
            return None;
        }
        let mut v: u32 = 0;
        macro_rules! hex {
            ($k:expr) => {{
                let h = t[2 + $k];
                let d = if h >= b'0' && h <= b'9' {
                    h - b'0'
                } else if h >= b'a' && h <= b'f' {
                    h - b'a' + 10
                } else if h >= b'A' && h <= b'F' {
                    h - b'A' + 10
                } else {
                    return None;
                };
                v = v * 16 + d as u32;
            }};
        }
        hex!(0);
        hex!(1);
        hex!(2);
        hex!(3);
        if v >= 0xD800 && v <= 0xDFFF {
            return None;
        }
        return Some(v);
    }
    // a raw character: the text must be exactly its UTF-8 encoding
    if c < 0x80 {
        return if t.len() == 1 { Some(c as u32) } else { None };
    }
    if c >= 0xC2 && c <= 0xDF {
        if t.len() != 2 || t[1] & 0xC0 != 0x80 {
            return None;
        }
        return Some(((c as u32 & 0x1F) << 6) | (t[1] as u32 & 0x3F));
    }
    if c >= 0xE0 && c <= 0xEF {
        if t.len() != 3 || t[1] & 0xC0 != 0x80 || t[2] & 0xC0 != 0x80 {
            return None;
        }
        return Some(((c as u32 & 0x0F) << 12) | ((t[1] as u32 & 0x3F) << 6) | (t[2] as u32 & 0x3F));
    }
    if c >= 0xF0 && c <= 0xF4 {
        if t.len() != 4 || t[1] & 0xC0 != 0x80 || t[2] & 0xC0 != 0x80 || t[3] & 0xC0 != 0x80 {
            return None;
        }
        return Some(
            ((c as u32 & 0x07) << 18)
                | ((t[1] as u32 & 0x3F) << 12)
                | ((t[2] as u32 & 0x3F) << 6)
                | (t[3] as u32 & 0x3F),
        );
    }
    None
}

fn class_key(c: char) -> &'static str {
    if c.is_control() {
        "control-character"
    } else {
        "other"
    }
}

/// Printing `ConstValue::String(c)` for one scalar value c of the class [lo, hi] yields
/// `"<content>"` where content is valid GraphQL string content denoting exactly c.
fn quote_class<S: Src>(s: &mut S, lo: u32, hi: u32) {
    let c = s.char();
    s.assume(c as u32 >= lo && c as u32 <= hi);
    // the string is built with a byte length that is concrete for the class (so that the
    // real code's `chars()` loop has a concrete trip count); the bytes are symbolic
    let cp = c as u32;
    let bytes: Vec<u8> = if hi < 0x80 {
        vec![cp as u8]
    } else if hi < 0x800 {
        vec![0xC0 | (cp >> 6) as u8, 0x80 | (cp & 0x3F) as u8]
    } else if hi < 0x10000 {
        vec![0xE0 | (cp >> 12) as u8, 0x80 | ((cp >> 6) & 0x3F) as u8, 0x80 | (cp & 0x3F) as u8]
    } else {
        vec![
            0xF0 | (cp >> 18) as u8,
            0x80 | ((cp >> 12) & 0x3F) as u8,
            0x80 | ((cp >> 6) & 0x3F) as u8,
            0x80 | (cp & 0x3F) as u8,
        ]
    };
    let st = unsafe { String::from_utf8_unchecked(bytes) };
    let v = std::mem::ManuallyDrop::new(ConstValue::String(st));
    let mut sink = Sink::new();
    let r = write!(sink, "{}", &*v);
    assert!(r.is_ok() && !sink.overflow, "printing failed");
    cover!(sink.len == 8 || lo >= 0x800, "unicode escape emitted (classes that contain control characters)");
    cover!(sink.len > 2 && sink.len != 8, "not a unicode escape");
    let n = sink.len;
    let ok = n >= 3
        && sink.buf[0] == b'"'
        && sink.buf[n - 1] == b'"'
        && decode_one(&sink.buf[1..n - 1]) == Some(c as u32);
    if !ok {
        s.key(class_key(c));
    }
    assert!(ok, "printed string literal does not denote the character");
}
pub fn quote_c0<S: Src>(s: &mut S) { quote_class(s, 0x00, 0x1F) }
pub fn quote_ascii<S: Src>(s: &mut S) { quote_class(s, 0x20, 0x7F) }
pub fn quote_latin<S: Src>(s: &mut S) { quote_class(s, 0x80, 0x7FF) }
pub fn quote_bmp<S: Src>(s: &mut S) { quote_class(s, 0x800, 0xFFFF) }
pub fn quote_astral<S: Src>(s: &mut S) { quote_class(s, 0x10000, 0x10FFFF) }

/// Null, booleans, enums and integers print as the corresponding GraphQL token.
pub fn print_scalars<S: Src>(s: &mut S) {
    let b = s.bool();
    let mut sink = Sink::new();
    let _ = write!(sink, "{}", ConstValue::Boolean(b));
    let want: &[u8] = if b { b"true" } else { b"false" };
    cover!(b, "true");
    assert!(sink.len == want.len() && sink.buf[0] == want[0] && sink.buf[3] == want[3], "boolean token");
    let mut sink = Sink::new();
    let _ = write!(sink, "{}", ConstValue::Null);
    assert!(sink.len == 4 && &sink.buf[..4] == b"null", "null token");
    // an integer in -9..=9 (one digit: the integer formatting loop is std's)
    let i = s.i8();
    s.assume(i > -10 && i < 10);
    let mut sink = Sink::new();
    let _ = write!(sink, "{}", ConstValue::Number(Number::from(i as i64)));
    cover!(i < 0, "negative");
    if i < 0 {
        assert!(sink.len == 2 && sink.buf[0] == b'-' && sink.buf[1] == b'0' + (-i) as u8, "negative integer token");
    } else {
        assert!(sink.len == 1 && sink.buf[0] == b'0' + i as u8, "integer token");
    }
}

/// A list of two booleans prints as `[a, b]`; the empty list as `[]`.
pub fn print_list<S: Src>(s: &mut S) {
    let a = s.bool();
    let b = s.bool();
    let n = s.below(3);
    let mut items = Vec::new();
    if n >= 1 {
        items.push(ConstValue::Boolean(a));
    }
    if n >= 2 {
        items.push(ConstValue::Boolean(b));
    }
    let v = std::mem::ManuallyDrop::new(ConstValue::List(items));
    let mut sink = Sink::new();
    let r = write!(sink, "{}", &*v);
    assert!(r.is_ok() && !sink.overflow);
    let la = if a { 4 } else { 5 };
    let lb = if b { 4 } else { 5 };
    cover!(n == 2 && a && !b, "[true, false]");
    cover!(n == 0, "[]");
    let len = sink.len;
    assert!(sink.buf[0] == b'[' && sink.buf[len - 1] == b']', "brackets");
    if n == 0 {
        assert!(len == 2);
    } else if n == 1 {
        assert!(len == 2 + la && sink.buf[1] == if a { b't' } else { b'f' });
    } else {
        assert!(len == 2 + la + 2 + lb, "two items and one separator");
        assert!(sink.buf[1 + la] == b',' && sink.buf[2 + la] == b' ', "separator");
        assert!(sink.buf[3 + la] == if b { b't' } else { b'f' }, "second item");
    }
}


/// JSON conversion (the property's second clause) for the scalar kinds: `into_json` (the real
/// `Serialize for ConstValue` driven by serde_json's value serializer) yields the JSON value
/// of the same kind and content, and `from_json` (the real `Deserialize for ConstValue`
/// visitor driven by serde_json's value deserializer) yields the value back.
pub fn json_bool_null<S: Src>(s: &mut S) {
    use std::mem::ManuallyDrop as MD;
    let b = s.bool();
    cover!(b, "true");
    let j = MD::new(ConstValue::Boolean(b).into_json());
    assert!(matches!(&*j, Ok(serde_json::Value::Bool(x)) if *x == b), "Boolean -> JSON bool");
    let back = MD::new(ConstValue::from_json(serde_json::Value::Bool(b)));
    assert!(matches!(&*back, Ok(ConstValue::Boolean(x)) if *x == b), "JSON bool -> Boolean");
    let j = MD::new(ConstValue::Null.into_json());
    assert!(matches!(&*j, Ok(serde_json::Value::Null)), "Null -> JSON null");
    let back = MD::new(ConstValue::from_json(serde_json::Value::Null));
    assert!(matches!(&*back, Ok(ConstValue::Null)), "JSON null -> Null");
}

/// Every i64, every u64 and every finite f64: Number -> JSON number -> Number is the identity
/// (compared through the exact accessors of serde_json::Number).
pub fn json_numbers<S: Src>(s: &mut S) {
    use std::mem::ManuallyDrop as MD;
    let i = s.i64();
    cover!(i < 0, "negative integer");
    let j = MD::new(ConstValue::Number(Number::from(i)).into_json());
    match &*j {
        Ok(serde_json::Value::Number(n)) => assert!(n.as_i64() == Some(i), "i64 -> JSON"),
        _ => assert!(false, "integer must become a JSON number"),
    }
    let back = MD::new(ConstValue::from_json(serde_json::Value::Number(Number::from(i))));
    match &*back {
        Ok(ConstValue::Number(n)) => assert!(n.as_i64() == Some(i), "JSON -> i64"),
        _ => assert!(false, "JSON integer must become a Number"),
    }
    let u = s.u64();
    cover!(u > i64::MAX as u64, "above i64::MAX");
    let j = MD::new(ConstValue::Number(Number::from(u)).into_json());
    match &*j {
        Ok(serde_json::Value::Number(n)) => assert!(n.as_u64() == Some(u), "u64 -> JSON"),
        _ => assert!(false, "unsigned must become a JSON number"),
    }
    let back = MD::new(ConstValue::from_json(serde_json::Value::Number(Number::from(u))));
    match &*back {
        Ok(ConstValue::Number(n)) => assert!(n.as_u64() == Some(u), "JSON -> u64"),
        _ => assert!(false, "JSON unsigned must become a Number"),
    }
    let f = s.f64();
    s.assume(f.is_finite());
    if let Some(nf) = Number::from_f64(f) {
        let j = MD::new(ConstValue::Number(nf.clone()).into_json());
        match &*j {
            Ok(serde_json::Value::Number(n)) => {
                assert!(n.is_f64() && n.as_f64().map(f64::to_bits) == Some(f.to_bits()), "f64 -> JSON")
            }
            _ => assert!(false, "float must become a JSON number"),
        }
        let back = MD::new(ConstValue::from_json(serde_json::Value::Number(nf)));
        match &*back {
            Ok(ConstValue::Number(n)) => {
                assert!(n.is_f64() && n.as_f64().map(f64::to_bits) == Some(f.to_bits()), "JSON -> f64")
            }
            _ => assert!(false, "JSON float must become a Number"),
        }
    }
}

/// A one-character ASCII string converts to the JSON string with the same byte and back to a
/// String; the enum value of that name (a letter) converts to the JSON *string* of that name.
pub fn json_string_enum<S: Src>(s: &mut S) {
    use std::mem::ManuallyDrop as MD;
    let c = s.u8();
    s.assume(c < 0x80);
    cover!(c == b'"', "a quote");
    cover!(c == 0x1B, "a control character");
    let st = unsafe { String::from_utf8_unchecked(vec![c]) };
    let j = MD::new(ConstValue::String(st).into_json());
    match &*j {
        Ok(serde_json::Value::String(t)) => {
            assert!(t.len() == 1 && t.as_bytes()[0] == c, "String -> JSON string");
            let back = MD::new(ConstValue::from_json(serde_json::Value::String(t.clone())));
            match &*back {
                Ok(ConstValue::String(u)) => assert!(u.len() == 1 && u.as_bytes()[0] == c, "JSON string -> String"),
                _ => assert!(false, "JSON string must become a String"),
            }
        }
        _ => assert!(false, "String must become a JSON string"),
    }
    let l = s.u8();
    s.assume((l >= b'A' && l <= b'Z') || (l >= b'a' && l <= b'z') || l == b'_');
    let name = unsafe { String::from_utf8_unchecked(vec![l]) };
    let e = MD::new(ConstValue::Enum(Name::new(name)));
    let j = MD::new((*e).clone().into_json());
    match &*j {
        Ok(serde_json::Value::String(t)) => assert!(t.len() == 1 && t.as_bytes()[0] == l, "Enum -> JSON string of its name"),
        _ => assert!(false, "Enum must become a JSON string"),
    }
}

harnesses! {
    #[kani::unwind(6)] c15_quote_c0 => quote_c0;
    #[kani::unwind(6)] c15_quote_ascii => quote_ascii;
    #[kani::unwind(6)] c15_quote_latin => quote_latin;
    #[kani::unwind(6)] c15_quote_bmp => quote_bmp;
    #[kani::unwind(6)] c15_quote_astral => quote_astral;
    #[kani::unwind(6)] c15_print_scalars => print_scalars;
    #[kani::unwind(6)] c15_print_list => print_list;
    #[kani::unwind(4)] #[kani::stub(std::fmt::format, crate::stubs::fmt_stub)] c15_json_bool_null => json_bool_null;
    #[kani::unwind(4)] #[kani::stub(std::fmt::format, crate::stubs::fmt_stub)] c15_json_numbers => json_numbers;
    #[kani::unwind(4)] #[kani::stub(std::fmt::format, crate::stubs::fmt_stub)] c15_json_string_enum => json_string_enum;
}
