//! C16 — serde values convert to GraphQL values and back.
//! Real code: `to_value` / `Serializer` (value/src/serializer.rs) and `from_value` /
//! `ConstValue as Deserializer` (value/src/deserializer.rs).
use std::mem::ManuallyDrop;

use async_graphql_value::{from_value, to_value, ConstValue, Number};
use serde::{Deserialize, Serialize};

use crate::vsrc::Src;

fn num_i128(n: &Number) -> Option<i128> {
    if let Some(i) = n.as_i64() {
        Some(i as i128)
    } else {
        n.as_u64().map(|u| u as i128)
    }
}

macro_rules! ser_int {
    ($name:ident, $t:ty, $draw:ident) => {
        /// to_value(&v) is the Number that denotes v, for every v.
        pub fn $name<S: Src>(s: &mut S) {
            let v: $t = s.$draw();
            cover!(v == <$t>::MAX, "maximum");
            cover!(v == <$t>::MIN, "minimum");
            let r = ManuallyDrop::new(to_value(&v));
            match &*r {
                Ok(ConstValue::Number(n)) => assert!(num_i128(n) == Some(v as i128), "serialized to a different number"),
                _ => assert!(false, "an integer must serialize to a Number"),
            }
        }
    };
}
ser_int!(ser_i8, i8, i8);
ser_int!(ser_i16, i16, i16);
ser_int!(ser_i32, i32, i32);
ser_int!(ser_i64, i64, i64);
ser_int!(ser_u8, u8, u8);
ser_int!(ser_u16, u16, u16);
ser_int!(ser_u32, u32, u32);
ser_int!(ser_u64, u64, u64);

pub fn ser_bool_unit_option<S: Src>(s: &mut S) {
    let b = s.bool();
    cover!(b, "true");
    let r = ManuallyDrop::new(to_value(&b));
    assert!(matches!(&*r, Ok(ConstValue::Boolean(x)) if *x == b), "bool serializes to Boolean");
    let r = ManuallyDrop::new(to_value(&()));
    assert!(matches!(&*r, Ok(ConstValue::Null)), "unit serializes to Null");
    let present = s.bool();
    let x = s.u8();
    let o: Option<u8> = if present { Some(x) } else { None };
    cover!(present, "Some");
    cover!(!present, "None");
    let r = ManuallyDrop::new(to_value(&o));
    match &*r {
        Ok(ConstValue::Null) => assert!(!present, "Some serialized to Null"),
        Ok(ConstValue::Number(n)) => assert!(present && num_i128(n) == Some(x as i128), "Some(x) serializes to x"),
        _ => assert!(false, "unexpected kind"),
    }
}

pub fn ser_f64<S: Src>(s: &mut S) {
    let v = s.f64();
    cover!(v.is_nan(), "NaN");
    cover!(v.is_finite(), "finite");
    let r = ManuallyDrop::new(to_value(&v));
    match &*r {
        Ok(ConstValue::Number(n)) => {
            assert!(v.is_finite(), "non-finite float serialized to a Number");
            assert!(n.as_f64().map(|x| x.to_bits()) == Some(v.to_bits()), "serialized to a different float");
        }
        Ok(ConstValue::Null) => assert!(!v.is_finite(), "finite float serialized to Null"),
        _ => assert!(false, "unexpected kind"),
    }
}

pub fn ser_f32<S: Src>(s: &mut S) {
    let v = s.f32();
    cover!(v.is_finite() && v != 0.0, "finite non-zero");
    let r = ManuallyDrop::new(to_value(&v));
    match &*r {
        Ok(ConstValue::Number(n)) => {
            assert!(v.is_finite());
            assert!(n.as_f64() == Some(v as f64), "serialized to a different float");
        }
        Ok(ConstValue::Null) => assert!(!v.is_finite()),
        _ => assert!(false, "unexpected kind"),
    }
}

#[derive(Serialize, Deserialize, PartialEq, Clone, Copy)]
pub enum Unit3 {
    A,
    B,
    C,
}
#[derive(Serialize, Deserialize, PartialEq, Clone, Copy)]
pub struct Newtype(pub u16);

/// Unit variants serialize to the variant's name, newtype structs to their content.
pub fn ser_enum_newtype<S: Src>(s: &mut S) {
    let k = s.below(3);
    let e = match k {
        0 => Unit3::A,
        1 => Unit3::B,
        _ => Unit3::C,
    };
    cover!(k == 2, "last variant");
    let r = ManuallyDrop::new(to_value(&e));
    match &*r {
        Ok(ConstValue::String(st)) => {
            assert!(st.len() == 1 && st.as_bytes()[0] == b'A' + k as u8, "unit variant serializes to its name")
        }
        Ok(ConstValue::Enum(n)) => {
            assert!(n.as_str().len() == 1 && n.as_str().as_bytes()[0] == b'A' + k as u8, "unit variant serializes to its name")
        }
        _ => assert!(false, "unit variant must serialize to a string or enum value"),
    }
    let x = s.u16();
    let r = ManuallyDrop::new(to_value(&Newtype(x)));
    match &*r {
        Ok(ConstValue::Number(n)) => assert!(num_i128(n) == Some(x as i128), "newtype struct serializes to its content"),
        _ => assert!(false, "newtype struct must serialize transparently"),
    }
}

/// Deserializer direction for the kinds whose visitors have no value-dependent error path.
pub fn de_bool_unit_option<S: Src>(s: &mut S) {
    let b = s.bool();
    cover!(b, "true");
    let r = ManuallyDrop::new(from_value::<bool>(ConstValue::Boolean(b)));
    assert!(matches!(&*r, Ok(x) if *x == b), "Boolean deserializes to the same bool");
    let r = ManuallyDrop::new(from_value::<()>(ConstValue::Null));
    assert!(matches!(&*r, Ok(())), "Null deserializes to unit");
    let r = ManuallyDrop::new(from_value::<Option<bool>>(ConstValue::Null));
    assert!(matches!(&*r, Ok(None)), "Null deserializes to None");
    let r = ManuallyDrop::new(from_value::<Option<bool>>(ConstValue::Boolean(b)));
    assert!(matches!(&*r, Ok(Some(x)) if *x == b), "Boolean deserializes to Some");
}

pub fn de_wide_numbers<S: Src>(s: &mut S) {
    let i = s.i64();
    cover!(i < 0, "negative");
    let r = ManuallyDrop::new(from_value::<i64>(ConstValue::Number(Number::from(i))));
    assert!(matches!(&*r, Ok(x) if *x == i), "i64 round trip");
    let u = s.u64();
    cover!(u > i64::MAX as u64, "above i64::MAX");
    let r = ManuallyDrop::new(from_value::<u64>(ConstValue::Number(Number::from(u))));
    assert!(matches!(&*r, Ok(x) if *x == u), "u64 round trip");
    let f = s.f64();
    s.assume(f.is_finite());
    if let Some(n) = Number::from_f64(f) {
        let r = ManuallyDrop::new(from_value::<f64>(ConstValue::Number(n)));
        assert!(matches!(&*r, Ok(x) if x.to_bits() == f.to_bits()), "f64 round trip");
    }
}

/// Strings of exactly L bytes (ASCII) serialize to the String with the same bytes and
/// deserialize back to the same String.
fn ser_de_string<S: Src, const L: usize>(s: &mut S) {
    let mut b = [0u8; L];
    let mut i = 0;
    while i < L {
        b[i] = s.u8();
        s.assume(b[i] < 0x80);
        i += 1;
    }
    let st = unsafe { String::from_utf8_unchecked(b.to_vec()) };
    let r = ManuallyDrop::new(to_value(&st));
    cover!(L == 0 || b[0] == b'"', "a quote character");
    match &*r {
        Ok(ConstValue::String(out)) => {
            assert!(out.len() == L, "length preserved");
            let ob = out.as_bytes();
            let mut i = 0;
            while i < L {
                assert!(ob[i] == b[i], "bytes preserved");
                i += 1;
            }
            let back = ManuallyDrop::new(from_value::<String>(ConstValue::String(out.clone())));
            match &*back {
                Ok(t) => {
                    assert!(t.len() == L, "round trip length");
                    let tb = t.as_bytes();
                    let mut i = 0;
                    while i < L {
                        assert!(tb[i] == b[i], "round trip bytes");
                        i += 1;
                    }
                }
                Err(_) => assert!(false, "String does not deserialize"),
            }
        }
        _ => assert!(false, "a string must serialize to a String"),
    }
    std::mem::forget(st);
}
pub fn ser_de_string0<S: Src>(s: &mut S) { ser_de_string::<S, 0>(s) }
pub fn ser_de_string2<S: Src>(s: &mut S) { ser_de_string::<S, 2>(s) }

/// A 2-tuple and a 2-element sequence serialize to a List of the elements' values, in order.
pub fn ser_tuple_seq<S: Src>(s: &mut S) {
    let x = s.u8();
    let y = s.bool();
    cover!(y, "true");
    let r = ManuallyDrop::new(to_value(&(x, y)));
    match &*r {
        Ok(ConstValue::List(items)) => {
            assert!(items.len() == 2, "two elements");
            assert!(matches!(&items[0], ConstValue::Number(n) if num_i128(n) == Some(x as i128)), "first element");
            assert!(matches!(&items[1], ConstValue::Boolean(b) if *b == y), "second element");
        }
        _ => assert!(false, "a tuple must serialize to a List"),
    }
    let a = s.u16();
    let b = s.u16();
    let v = ManuallyDrop::new(vec![a, b]);
    let r = ManuallyDrop::new(to_value(&*v));
    match &*r {
        Ok(ConstValue::List(items)) => {
            assert!(items.len() == 2, "two elements");
            assert!(matches!(&items[0], ConstValue::Number(n) if num_i128(n) == Some(a as i128)), "first element");
            assert!(matches!(&items[1], ConstValue::Number(n) if num_i128(n) == Some(b as i128)), "second element");
        }
        _ => assert!(false, "a sequence must serialize to a List"),
    }
}

harnesses! {
    #[kani::unwind(4)] #[kani::stub(std::fmt::format, crate::stubs::fmt_stub)] c16_ser_i8 => ser_i8;
    #[kani::unwind(4)] #[kani::stub(std::fmt::format, crate::stubs::fmt_stub)] c16_ser_i16 => ser_i16;
    #[kani::unwind(4)] #[kani::stub(std::fmt::format, crate::stubs::fmt_stub)] c16_ser_i32 => ser_i32;
    #[kani::unwind(4)] #[kani::stub(std::fmt::format, crate::stubs::fmt_stub)] c16_ser_i64 => ser_i64;
    #[kani::unwind(4)] #[kani::stub(std::fmt::format, crate::stubs::fmt_stub)] c16_ser_u8 => ser_u8;
    #[kani::unwind(4)] #[kani::stub(std::fmt::format, crate::stubs::fmt_stub)] c16_ser_u16 => ser_u16;
    #[kani::unwind(4)] #[kani::stub(std::fmt::format, crate::stubs::fmt_stub)] c16_ser_u32 => ser_u32;
    #[kani::unwind(4)] #[kani::stub(std::fmt::format, crate::stubs::fmt_stub)] c16_ser_u64 => ser_u64;
    #[kani::unwind(4)] #[kani::stub(std::fmt::format, crate::stubs::fmt_stub)] c16_ser_bool_unit_option => ser_bool_unit_option;
    #[kani::unwind(4)] #[kani::stub(std::fmt::format, crate::stubs::fmt_stub)] c16_ser_f64 => ser_f64;
    #[kani::unwind(4)] #[kani::stub(std::fmt::format, crate::stubs::fmt_stub)] c16_ser_f32 => ser_f32;
    #[kani::unwind(4)] #[kani::stub(std::fmt::format, crate::stubs::fmt_stub)] c16_ser_enum_newtype => ser_enum_newtype;
    #[kani::unwind(4)] #[kani::stub(std::fmt::format, crate::stubs::fmt_stub)] c16_de_bool_unit_option => de_bool_unit_option;
    #[kani::unwind(4)] #[kani::stub(std::fmt::format, crate::stubs::fmt_stub)] c16_de_wide_numbers => de_wide_numbers;
    #[kani::unwind(4)] #[kani::stub(std::fmt::format, crate::stubs::fmt_stub)] c16_ser_de_string0 => ser_de_string0;
    #[kani::unwind(4)] #[kani::stub(std::fmt::format, crate::stubs::fmt_stub)] c16_ser_de_string2 => ser_de_string2;
    #[kani::unwind(4)] #[kani::stub(std::fmt::format, crate::stubs::fmt_stub)] c16_ser_tuple_seq => ser_tuple_seq;
}
