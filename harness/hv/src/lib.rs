//! Kani harnesses over `async-graphql-value` alone (smallest crate containing the unit).
#![allow(clippy::all)]
#![allow(dead_code)]

#[path = "../../common/vsrc.rs"]
#[macro_use]
pub mod vsrc;
#[path = "../../common/stubs.rs"]
pub mod stubs;

pub mod c15;
pub mod c16;

pub fn tables() -> Vec<(&'static str, vsrc::NativeFn)> {
    let mut t = Vec::new();
    t.extend(c15::table());
    t.extend(c16::table());
    t
}
