"""Registry of the Kani proof harnesses per property: what each encodes, its bounds, stubs,
assumptions, tier and cost class. The driver (./check) reads this; the evidence files quote it."""

FMT = "alloc::fmt::format -> empty String (error-message text is not the subject)"
RS = "std::hash::RandomState::new -> fixed seed (avoids getrandom syscall; map behaviour is seed-independent by contract)"


def H(name, tiers=("quick", "thorough"), cls="S", **kw):
    d = {"name": name, "tiers": list(tiers), "cls": cls, "crate": name.split("::")[0] and kw.pop("crate")}
    d.update(kw)
    return d


PROPS = {}

PROPS["C20"] = {
    "title": "cache policy never looser (policy combinator)",
    "files": ["src/registry/cache_control.rs"],
    "funcs": ["CacheControl::merge (src/registry/cache_control.rs)"],
    "claim": "for every pair/triple of policies (public: bool, max_age: any i32) the real CacheControl::merge is "
             "commutative, associative, idempotent, has the default policy as identity, equals the combination the "
             "property states and is never looser than an operand; folding it over any sequence of up to 5 hints "
             "(max_age >= -1) equals the closed form (private iff any private; no-cache if any no-cache; else the "
             "minimum positive max-age)",
    "not_covered": "CacheControlCalculate's walk of the document over a populated registry (which hints get merged "
                   "for interface/union selections) is outside reach of CBMC here and is not decided",
    "assumptions": [],
    "harnesses": [
        H("c20::c20_merge_laws", crate="hm", unwind=2, bounds="all (bool,i32)^3"),
        H("c20::c20_merge_never_looser", crate="hm", unwind=2, bounds="all (bool,i32)^2"),
        H("c20::c20_fold3", crate="hm", unwind=5, bounds="sequences of 0..=3 policies, max_age any i32 >= -1",
          assumes=["max_age >= -1 (the derive macro emits only n>0, -1 and 0)"]),
        H("c20::c20_fold5", crate="hm", unwind=7, bounds="sequences of 0..=5 policies, max_age any i32 >= -1",
          assumes=["max_age >= -1"], tiers=("thorough",)),
    ],
}

_INTS = ["i8", "i16", "i32", "i64", "isize", "u8", "u16", "u32", "u64", "usize",
         "nzi8", "nzi16", "nzi32", "nzi64", "nzisize", "nzu8", "nzu16", "nzu32", "nzu64", "nzusize"]
_c07 = []
for _t in _INTS:
    _c07 += [
        H("c07::c07_accepts_%s" % _t, crate="hm", unwind=3, stubs=[FMT],
          bounds="every serde_json::Number: From<i64> (all i64), From<u64> (all u64), from_f64 (all finite f64)",
          assumes=["f64 input finite (serde_json cannot represent non-finite numbers)"]),
        H("c07::c07_valid_%s" % _t, crate="hm", unwind=3, stubs=[FMT], bounds="every serde_json::Number (as above)"),
        H("c07::c07_rt_%s" % _t, crate="hm", unwind=3, stubs=[FMT], bounds="every value of the Rust type"),
        H("c07::c07_kinds_%s" % _t, crate="hm", unwind=3, stubs=[FMT],
          bounds="Null, Boolean(any), String(\"\"), String(1 ASCII byte, any), List([]), Binary([])"),
    ]
_c07 += [
    H("c07::c07_f64_accepts", crate="hm", unwind=3, stubs=[FMT], bounds="every serde_json::Number"),
    H("c07::c07_f32_accepts", crate="hm", unwind=3, stubs=[FMT], bounds="every serde_json::Number"),
    H("c07::c07_f64_roundtrip", crate="hm", unwind=3, stubs=[FMT], bounds="every f64 bit pattern (NaN/inf: no panic only)"),
    H("c07::c07_f32_roundtrip", crate="hm", unwind=3, stubs=[FMT], bounds="every f32 bit pattern (NaN/inf: no panic only)"),
    H("c07::c07_float_other_kinds", crate="hm", unwind=3, stubs=[FMT], bounds="Null, Boolean(any), String(\"\"), List([]) for f32 and f64"),
    H("c07::c07_bool", crate="hm", unwind=3, stubs=[FMT], bounds="both booleans; every Number, Null, String(\"\") rejected"),
    H("c07::c07_char_roundtrip", crate="hm", unwind=6, stubs=[FMT], bounds="every Unicode scalar value"),
    H("c07::c07_char_accepts", crate="hm", unwind=6, stubs=[FMT], bounds="strings of 0..=2 scalar values, <= 3 bytes; every Number; Null"),
    H("c07::c07_string", crate="hm", unwind=6, stubs=[FMT], bounds="ASCII strings of 0..=3 bytes; every Number, Boolean, Null rejected"),
    H("c07::c07_id", crate="hm", unwind=6, stubs=[FMT], bounds="ASCII strings of 0..=2 bytes; Boolean, Null, every finite float rejected"),
]
PROPS["C07"] = {
    "title": "built-in scalars accept exactly their domain and round-trip",
    "files": ["src/types/external/integers.rs", "src/types/external/non_zero_integers.rs", "src/types/external/floats.rs",
              "src/types/external/bool.rs", "src/types/external/char.rs", "src/types/external/string.rs", "src/types/id.rs",
              "src/error.rs"],
    "funcs": ["<T as ScalarType>::parse / is_valid / to_value for T in i8..i64, isize, u8..u64, usize, NonZero* of each, f32, f64, "
              "bool, char, String, ID"],
    "claim": "for each of the 20 integer scalar instantiations and EVERY serde_json::Number (all i64, all u64, all finite f64): "
             "parse returns Ok(v) iff the number is an integer in the type's mathematical range (and != 0 for NonZero) and then v "
             "equals it; is_valid never refuses a number parse accepts; parse(to_value(v)) == v for every v; values of other kinds "
             "are rejected. f32/f64: every Number is accepted with its f64 reading, every finite float round-trips bit-exactly, "
             "non-finite floats never panic. bool, char (every Unicode scalar value), String and ID likewise (strings <= 3 bytes)",
    "not_covered": "derived enums (parse_enum needs the enum's item table and string comparison loops beyond the bound), optional-feature "
                   "scalars (chrono, uuid, ...); f32 overflow to infinity for |x| > f32::MAX is accepted by the code and not asserted on; "
                   "strings longer than 3 bytes; Enum/Object kinds offered to scalars",
    "assumptions": ["serde_json is built without arbitrary_precision (Cargo.lock feature set of the pinned tree)"],
    "harnesses": _c07,
}

_VT = ["i8", "i16", "i32", "i64", "isize", "u8", "u16", "u32", "u64", "usize", "f32", "f64"]
_LOSSY_I64 = {"u64", "usize", "f32", "f64"}     # conversion T -> i64 is lossy somewhere
_LOSSY_F64 = {"i64", "isize", "u64", "usize"}   # conversion T -> f64 is lossy somewhere
_c08 = []
for _t in _VT:
    _vb = "every finite %s" % _t if _t.startswith("f") else "every %s" % _t
    for _k in ["max", "min"]:
        _c08.append(H("c08::c08_%s_i64_%s" % (_k, _t), crate="hm", unwind=3, stubs=[FMT], bounds="%s x every i64 bound" % _vb))
        if _t in _LOSSY_I64:
            _c08.append(H("c08::c08_%s_i64x_%s" % (_k, _t), crate="hm", unwind=3, stubs=[FMT],
                          bounds="%s x every i64 bound, minus the region of the recorded finding" % _vb,
                          assumes=["complement run: value outside the lossy-conversion region of the recorded finding"]))
        _c08.append(H("c08::c08_%s_f64_%s" % (_k, _t), crate="hm", unwind=3, stubs=[FMT], bounds="%s x every finite f64 bound" % _vb))
        if _t in _LOSSY_F64:
            _c08.append(H("c08::c08_%s_f64x_%s" % (_k, _t), crate="hm", unwind=3, stubs=[FMT],
                          bounds="%s x every finite f64 bound, minus the region of the recorded finding" % _vb,
                          assumes=["complement run: |value| <= 2^53"]))
for _t in _VT[:10]:
    for _n, _nv in [("mult3", "3"), ("mult10", "10"), ("multm7", "-7")]:
        _c08.append(H("c08::c08_%s_%s" % (_n, _t), crate="hm", unwind=3, stubs=[FMT], bounds="every %s != 0, divisor %s" % (_t, _nv),
                      assumes=["value != 0 (the crate documents and tests that multiple_of rejects 0)"]))
        if _t in _LOSSY_I64:
            _c08.append(H("c08::c08_%sx_%s" % (_n, _t), crate="hm", unwind=3, stubs=[FMT],
                          bounds="every %s != 0 and <= i64::MAX, divisor %s" % (_t, _nv),
                          assumes=["complement run: value <= i64::MAX", "value != 0"]))
_c08 += [
    H("c08::c08_mult_any_i8", crate="hm", unwind=3, stubs=[FMT], bounds="every i8 != 0 x every i64 divisor except 0 and -1",
      assumes=["divisor not in {0, -1}: configuration-time values for which % is undefined / overflows", "value != 0"]),
    H("c08::c08_mult_any_u8", crate="hm", unwind=3, stubs=[FMT], bounds="every u8 != 0 x every i64 divisor except 0 and -1",
      assumes=["divisor not in {0, -1}", "value != 0"]),
    H("c08::c08_items", crate="hm", unwind=5, stubs=[FMT], bounds="Vec<i32> of 0..=3 items x every usize bound"),
]
for _l in range(5):
    _c08.append(H("c08::c08_str_lengths%d" % _l, crate="hm", unwind=6,
                  stubs=[FMT, "core::str::count::do_count_chars -> panics if reached (word-at-a-time path for strings >= 32 bytes; unreachable for these lengths, and reaching it would be reported)"],
                  bounds="every well-formed UTF-8 string of exactly %d bytes x every usize bound; max_length, min_length, chars_max_length, chars_min_length" % _l,
                  assumes=["bytes form well-formed UTF-8 (reference recogniser in the harness, cross-checked against String::from_utf8 in the same run)"]))
PROPS["C08"] = {
    "title": "built-in validators accept exactly the values satisfying their predicate",
    "files": ["src/validators/maximum.rs", "src/validators/minimum.rs", "src/validators/multiple_of.rs",
              "src/validators/max_length.rs", "src/validators/min_length.rs", "src/validators/chars_max_length.rs",
              "src/validators/chars_min_length.rs", "src/validators/max_items.rs", "src/validators/min_items.rs"],
    "funcs": ["validators::maximum<T,N>, minimum<T,N> for T in 10 integer types + f32 + f64, N in {i64, f64} (the two bound types "
              "the derive macro emits)", "validators::multiple_of<T,i64>", "validators::max_length/min_length/chars_max_length/"
              "chars_min_length<String>", "validators::max_items/min_items<Vec<i32>>"],
    "claim": "maximum/minimum return Ok exactly when value <= bound (>= bound) in EXACT arithmetic, for every value of each numeric "
             "Rust type and every i64 / finite f64 bound (oracle: i128 and exact integer/float comparison); multiple_of agrees with "
             "exact divisibility (full-width values for divisors 3, 10, -7; every i64 divisor for 8-bit values); the length validators "
             "agree with byte count / scalar count for every well-formed UTF-8 string of <= 4 bytes and every bound; item validators "
             "for lists of <= 3. Three recorded findings (lossy `as` conversions) are matched by role key and their complements are "
             "decided separately",
    "not_covered": "regex (regex crate automata), multiple_of with a float bound (fmod) and with 16..64-bit values against a symbolic "
                   "divisor (a symbolic 64-bit divider does not finish), the derive-generated invocation incl. list mode, delivery of "
                   "the error through Response.errors, strict vs fast mode (validators are mode-free), non-finite floats",
    "assumptions": [],
    "harnesses": _c08,
}

NOT_APPLICABLE = {
    "C01": "not yet claimed (leaf serialization kernels planned, see DESIGN.md section 4)",
    "C02": "dynamic execution: every mechanism (collect_fields, resolve) runs on a built dynamic::Schema and its Registry; schema construction alone exceeds what CBMC finishes (Schema::new > 25 min / 9 GB, DESIGN.md section 3)",
    "C03": "error nulling: the mechanism is add_error/? across nested async resolvers over a live QueryEnv; no unit smaller than the executor exhibits 'nearest nullable ancestor', and the executor cannot be encoded",
    "C04": "merged fields / serial mutations: observable only as resolver invocation order of boxed futures inside resolve_container_inner; needs schema + executor, outside CBMC's reach",
    "C05": "schedule independence quantifies over completion orders of concurrent futures; Kani treats futures and atomics sequentially and has no scheduler nondeterminism to make symbolic",
    "C11": "polynomial checking work is an asymptotic bound; at the document sizes CBMC can unroll (<= ~6 selections) exponential and polynomial work are indistinguishable, so any bounded assertion would be vacuous",
    "C18": "introspection consistency: __Schema/__Type resolvers over a populated registry through the executor; registry population (BTreeMap/HashMap of MetaType) and the executor are outside reach",
    "C19": "introspection modes: the mode tests are inline in QueryRoot::resolve_field / collect_fields, reachable only with schema + executor",
    "C23": "HTTP encodings: decoding is serde_urlencoded / serde_json / multer driven by derive visitors; symbolic buffers through them do not finish (parse_query with 1 symbolic byte > 20 min)",
    "C24": "multipart uploads: multer stream parsing and tempfile I/O cannot be encoded; the only pure piece (variable-path binding) is too small to stand for the property",
    "C25": "WebSocket protocol: histories x schedules over a HashMap of boxed streams, Instant::now, boxed init/ping futures and serde_json output; no bounded encoding within reach of Kani",
    "C26": "multipart/mixed framing: asynk_strim generator + select! (thread-local RNG) + timer futures + serde_json writer; not encodable",
    "C27": "subscription event isolation: interleavings of select_all streams over the shared error list; concurrency + executor",
    "C28": "DataLoader interleavings: scc::HashMap (lock-free, epoch reclamation, atomics), oneshot channels, spawner and timer; concurrency Kani does not model",
    "C29": "DataLoader cache histories: every operation goes through the scc map and async entry API; lru/hashbrown storages are heap containers outside reach (HashMap 2 inserts > 10 min)",
    "C30": "extension transparency: Next* chains of Arc<dyn Extension> around the executor; needs schema + executor",
    "C31": "persisted queries: SHA-256 hashing loop, async_trait objects, scc::HashCache and parse_query are all outside reach",
    "C34": "GraphiQL page: the oracle is a JavaScript/HTML tokenizer evaluating the generated page; rendering is askama-generated code over fmt with a dependency's HTML escaper",
    "C35": "GET never mutates: behaviour of five web-framework integrations' extractors (axum/actix/poem/warp/rocket request types, async I/O)",
}
for _p in ["C06", "C09", "C10", "C12", "C13", "C14", "C15", "C16", "C17", "C21", "C22", "C32", "C33"]:
    NOT_APPLICABLE.setdefault(_p, "claim under construction in this session (harnesses planned in DESIGN.md section 4); listed here until its check is registered")
