"""Registry of the Kani proof harnesses per property: what each encodes, its bounds, stubs,
assumptions, tier and cost class. The driver (./check) reads this; the evidence files quote it."""

FMT = "alloc::fmt::format -> empty String (error-message text is not the subject)"
RS = "std::hash::RandomState::new -> fixed seed (avoids getrandom syscall; map behaviour is seed-independent by contract)"


def H(name, tiers=("quick", "thorough"), cls="S", **kw):
    d = {"name": name, "tiers": list(tiers), "cls": cls, "crate": name.split("::")[0] and kw.pop("crate")}
    d.update(kw)
    return d


PROPS = {}

PROPS["C20"] = {
    "title": "cache policy never looser (policy combinator)",
    "files": ["src/registry/cache_control.rs", "src/validation/visitors/cache_control.rs"],
    "funcs": ["CacheControl::merge (src/registry/cache_control.rs)",
              "CacheControlCalculate::enter_selection_set (src/validation/visitors/cache_control.rs), composed with VisitorCons as in check_rules"],
    "claim": "for every pair/triple of policies (public: bool, max_age: any i32) the real CacheControl::merge is "
             "commutative, associative, idempotent, has the default policy as identity, equals the combination the "
             "property states and is never looser than an operand; folding it over any sequence of up to 5 hints "
             "(max_age >= -1) equals the closed form (private iff any private; no-cache if any no-cache; else the "
             "minimum positive max-age); the real validation visitor CacheControlCalculate, driven over 2 or 3 object types with "
             "solver-chosen hints, accumulates exactly that combination (the clause 'for selections made only on object types it equals "
             "exactly that combination')",
    "not_covered": "(thorough tier decides one field-level hint: c20_field_measures_plain, 6 min / 24 GB) WHICH types and fields "
                   "the document walk visits over a populated registry (interface/union selections, fragment spreads) are outside reach "
                   "of CBMC here and are not decided",
    "assumptions": [],
    "harnesses": [
        H("c20::c20_merge_laws", crate="hm", unwind=2, bounds="all (bool,i32)^3"),
        H("c20::c20_merge_never_looser", crate="hm", unwind=2, bounds="all (bool,i32)^2"),
        H("c20::c20_fold3", crate="hm", unwind=5, bounds="sequences of 0..=3 policies, max_age any i32 >= -1",
          assumes=["max_age >= -1 (the derive macro emits only n>0, -1 and 0)"]),
        H("c20::c20_fold5", crate="hm", unwind=7, bounds="sequences of 0..=5 policies, max_age any i32 >= -1",
          assumes=["max_age >= -1"], tiers=("thorough",)),
        H("c20::visitor::c20_visitor_objects2", crate="hm", unwind=5, stubs=[RS],
          bounds="CacheControlCalculate (composed with VisitorCons) driven over 2 object types with solver-chosen hints (bool, i32 >= -1)",
          assumes=["max_age >= -1"]),
        H("c20::visitor::c20_visitor_objects3", crate="hm", unwind=5, stubs=[RS],
          bounds="the same over 3 object types", assumes=["max_age >= -1"]),
        H("c20::field::c20_field_measures_plain", crate="hm", unwind=6, cls="L", mem_gb=26, timeout_s=1800, stubs=[FMT, RS], tiers=("thorough",),
          bounds="the three measuring visitors (composed as in check_rules) over ONE field `f` selected on a parent object type that declares it with a solver-chosen cache hint (bool, i32 >= -1) and its own complexity rule (child + 41)",
          assumes=["max_age >= -1"]),
    ],
}

_INTS = ["i8", "i16", "i32", "i64", "isize", "u8", "u16", "u32", "u64", "usize",
         "nzi8", "nzi16", "nzi32", "nzi64", "nzisize", "nzu8", "nzu16", "nzu32", "nzu64", "nzusize"]
_c07 = []
for _t in _INTS:
    _c07 += [
        H("c07::c07_accepts_%s" % _t, crate="hm", unwind=3, stubs=[FMT],
          bounds="every serde_json::Number: From<i64> (all i64), From<u64> (all u64), from_f64 (all finite f64)",
          assumes=["f64 input finite (serde_json cannot represent non-finite numbers)"]),
        H("c07::c07_valid_%s" % _t, crate="hm", unwind=3, stubs=[FMT], bounds="every serde_json::Number (as above)"),
        H("c07::c07_rt_%s" % _t, crate="hm", unwind=3, stubs=[FMT], bounds="every value of the Rust type"),
        H("c07::c07_kinds_%s" % _t, crate="hm", unwind=3, stubs=[FMT],
          bounds="Null, Boolean(any), String(\"\"), String(1 ASCII byte, any), List([]), Binary([])"),
    ]
_c07 += [
    H("c07::c07_f64_accepts", crate="hm", unwind=3, stubs=[FMT], bounds="every serde_json::Number"),
    H("c07::c07_f32_accepts", crate="hm", unwind=3, stubs=[FMT], bounds="every serde_json::Number"),
    H("c07::c07_f64_roundtrip", crate="hm", unwind=3, stubs=[FMT], bounds="every f64 bit pattern (NaN/inf: no panic only)"),
    H("c07::c07_f32_roundtrip", crate="hm", unwind=3, stubs=[FMT], bounds="every f32 bit pattern (NaN/inf: no panic only)"),
    H("c07::c07_float_other_kinds", crate="hm", unwind=3, stubs=[FMT], bounds="Null, Boolean(any), String(\"\"), List([]) for f32 and f64"),
    H("c07::c07_bool", crate="hm", unwind=3, stubs=[FMT], bounds="both booleans; every Number, Null, String(\"\") rejected"),
    H("c07::c07_char_roundtrip", crate="hm", unwind=6, stubs=[FMT], bounds="every Unicode scalar value"),
    H("c07::c07_char_accepts", crate="hm", unwind=6, stubs=[FMT], bounds="strings of 0..=2 scalar values, <= 3 bytes; every Number; Null"),
    H("c07::c07_string", crate="hm", unwind=6, stubs=[FMT], bounds="ASCII strings of 0..=3 bytes; every Number, Boolean, Null rejected"),
    H("c07::c07_id", crate="hm", unwind=6, stubs=[FMT], bounds="ASCII strings of 0..=2 bytes; Boolean, Null, every finite float rejected"),
    H("c07::enums::c07_enum_accepts_enum", crate="hm", unwind=5, stubs=[FMT], bounds="derive(Enum) with variants A, B, C; enum value of any one ASCII letter"),
    H("c07::enums::c07_enum_accepts_string", crate="hm", unwind=5, stubs=[FMT], bounds="derive(Enum) with variants A, B, C; string of any one ASCII letter"),
    H("c07::enums::c07_enum_roundtrip", crate="hm", unwind=5, stubs=[FMT], bounds="every variant (solver-chosen): to_value / parse round trip; every Number, Boolean, Null rejected"),
]
PROPS["C07"] = {
    "title": "built-in scalars accept exactly their domain and round-trip",
    "files": ["src/types/external/integers.rs", "src/types/external/non_zero_integers.rs", "src/types/external/floats.rs",
              "src/types/external/bool.rs", "src/types/external/char.rs", "src/types/external/string.rs", "src/types/id.rs",
              "src/error.rs"],
    "funcs": ["<T as ScalarType>::parse / is_valid / to_value for T in i8..i64, isize, u8..u64, usize, NonZero* of each, f32, f64, "
              "bool, char, String, ID"],
    "claim": "for each of the 20 integer scalar instantiations and EVERY serde_json::Number (all i64, all u64, all finite f64): "
             "parse returns Ok(v) iff the number is an integer in the type's mathematical range (and != 0 for NonZero) and then v "
             "equals it; is_valid never refuses a number parse accepts; parse(to_value(v)) == v for every v; values of other kinds "
             "are rejected. f32/f64: every Number is accepted with its f64 reading, every finite float round-trips bit-exactly, "
             "non-finite floats never panic. bool, char (every Unicode scalar value), String and ID likewise (strings <= 3 bytes); a derive-built "
             "3-variant enum accepts exactly the one-letter enum values / strings that name a variant and round-trips every variant",
    "not_covered": "enum names longer than one letter, renamed / remote enums, optional-feature "
                   "scalars (chrono, uuid, ...); f32 overflow to infinity for |x| > f32::MAX is accepted by the code and not asserted on; "
                   "strings longer than 3 bytes; Enum/Object kinds offered to scalars",
    "assumptions": ["serde_json is built without arbitrary_precision (Cargo.lock feature set of the pinned tree)"],
    "harnesses": _c07,
}

_VT = ["i8", "i16", "i32", "i64", "isize", "u8", "u16", "u32", "u64", "usize", "f32", "f64"]
_LOSSY_I64 = {"u64", "usize", "f32", "f64"}     # conversion T -> i64 is lossy somewhere
_LOSSY_F64 = {"i64", "isize", "u64", "usize"}   # conversion T -> f64 is lossy somewhere
_c08 = []
for _t in _VT:
    _vb = "every finite %s" % _t if _t.startswith("f") else "every %s" % _t
    for _k in ["max", "min"]:
        _c08.append(H("c08::c08_%s_i64_%s" % (_k, _t), crate="hm", unwind=3, stubs=[FMT], bounds="%s x every i64 bound" % _vb))
        if _t in _LOSSY_I64:
            _c08.append(H("c08::c08_%s_i64x_%s" % (_k, _t), crate="hm", unwind=3, stubs=[FMT],
                          bounds="%s x every i64 bound, minus the region of the recorded finding" % _vb,
                          assumes=["complement run: value outside the lossy-conversion region of the recorded finding"]))
        _c08.append(H("c08::c08_%s_f64_%s" % (_k, _t), crate="hm", unwind=3, stubs=[FMT], bounds="%s x every finite f64 bound" % _vb))
        if _t in _LOSSY_F64:
            _c08.append(H("c08::c08_%s_f64x_%s" % (_k, _t), crate="hm", unwind=3, stubs=[FMT],
                          bounds="%s x every finite f64 bound, minus the region of the recorded finding" % _vb,
                          assumes=["complement run: |value| <= 2^53"]))
for _t in _VT[:10]:
    for _n, _nv in [("mult3", "3"), ("mult10", "10"), ("multm7", "-7")]:
        _c08.append(H("c08::c08_%s_%s" % (_n, _t), crate="hm", unwind=3, stubs=[FMT], bounds="every %s != 0, divisor %s" % (_t, _nv),
                      assumes=["value != 0 (the crate documents and tests that multiple_of rejects 0)"]))
        if _t in _LOSSY_I64:
            _c08.append(H("c08::c08_%sx_%s" % (_n, _t), crate="hm", unwind=3, stubs=[FMT],
                          bounds="every %s != 0 and <= i64::MAX, divisor %s" % (_t, _nv),
                          assumes=["complement run: value <= i64::MAX", "value != 0"]))
_c08 += [
    H("c08::c08_mult_any_i8", crate="hm", unwind=3, stubs=[FMT], bounds="every i8 != 0 x every i64 divisor except 0 and -1",
      assumes=["divisor not in {0, -1}: configuration-time values for which % is undefined / overflows", "value != 0"]),
    H("c08::c08_mult_any_u8", crate="hm", unwind=3, stubs=[FMT], bounds="every u8 != 0 x every i64 divisor except 0 and -1",
      assumes=["divisor not in {0, -1}", "value != 0"]),
    H("c08::c08_items", crate="hm", unwind=5, stubs=[FMT], bounds="Vec<i32> of 0..=3 items x every usize bound"),
]
for _l in range(5):
    _c08.append(H("c08::c08_str_lengths%d" % _l, crate="hm", unwind=6,
                  stubs=[FMT, "core::str::count::do_count_chars -> panics if reached (word-at-a-time path for strings >= 32 bytes; unreachable for these lengths, and reaching it would be reported)"],
                  bounds="every well-formed UTF-8 string of exactly %d bytes x every usize bound; max_length, min_length, chars_max_length, chars_min_length" % _l,
                  assumes=["bytes form well-formed UTF-8 (reference recogniser in the harness, cross-checked against String::from_utf8 in the same run)"]))
PROPS["C08"] = {
    "title": "built-in validators accept exactly the values satisfying their predicate",
    "files": ["src/validators/maximum.rs", "src/validators/minimum.rs", "src/validators/multiple_of.rs",
              "src/validators/max_length.rs", "src/validators/min_length.rs", "src/validators/chars_max_length.rs",
              "src/validators/chars_min_length.rs", "src/validators/max_items.rs", "src/validators/min_items.rs"],
    "funcs": ["validators::maximum<T,N>, minimum<T,N> for T in 10 integer types + f32 + f64, N in {i64, f64} (the two bound types "
              "the derive macro emits)", "validators::multiple_of<T,i64>", "validators::max_length/min_length/chars_max_length/"
              "chars_min_length<String>", "validators::max_items/min_items<Vec<i32>>"],
    "claim": "maximum/minimum return Ok exactly when value <= bound (>= bound) in EXACT arithmetic, for every value of each numeric "
             "Rust type and every i64 / finite f64 bound (oracle: i128 and exact integer/float comparison); multiple_of agrees with "
             "exact divisibility (full-width values for divisors 3, 10, -7; every i64 divisor for 8-bit values); the length validators "
             "agree with byte count / scalar count for every well-formed UTF-8 string of <= 4 bytes and every bound; item validators "
             "for lists of <= 3. Three recorded findings (lossy `as` conversions) are matched by role key and their complements are "
             "decided separately",
    "not_covered": "regex (regex crate automata), multiple_of with a float bound (fmod) and with 16..64-bit values against a symbolic "
                   "divisor (a symbolic 64-bit divider does not finish), the derive-generated invocation incl. list mode, delivery of "
                   "the error through Response.errors, strict vs fast mode (validators are mode-free), non-finite floats",
    "assumptions": [],
    "harnesses": _c08,
}

PEST = "pest::iterators::Pair::as_span and pest::Span::start -> return the byte offset chosen by the harness (a real pest Pair cannot be built inside CBMC; the native replay builds one with pest::state and runs the unstubbed code)"
PROPS["C14"] = {
    "title": "reported source positions are exact line and column numbers (position calculator)",
    "files": ["parser/src/pos.rs"],
    "funcs": ["PositionCalculator::new, PositionCalculator::step (parser/src/pos.rs) - the function that stamps every AST node"],
    "claim": "for every input of up to 6 (thorough: 8) scalar values over the alphabet and every two successive tokens at non-decreasing scalar-value "
             "offsets, PositionCalculator::step returns the 1-based line and column of the token, where LF, CR LF and a lone CR each "
             "end a line and columns count Unicode scalar values (reference counter in the harness)",
    "not_covered": "that each AST node is stamped with the position of ITS token (pest tree walk), positions inside pest syntax errors "
                   "(computed by pest), validation/execution error locations (copied from nodes); inputs longer than 8 scalar values",
    "assumptions": [],
    "harnesses": [
        H("c14::c14_pos_narrow3", crate="hp", unwind=6, stubs=[PEST], bounds="3 scalar values over {CR, LF, a}; 2 tokens at any offsets a <= b"),
        H("c14::c14_pos_narrow4", crate="hp", unwind=7, stubs=[PEST], bounds="4 scalar values over {CR, LF, a}; 2 tokens"),
        H("c14::c14_pos_wide3", crate="hp", unwind=6, stubs=[PEST], bounds="3 scalar values over {CR, LF, a, TAB, ',', '#', U+00E9, U+1F600, U+FEFF}; 2 tokens"),
        H("c14::c14_pos_wide4", crate="hp", unwind=7, stubs=[PEST], bounds="4 scalar values over the 9-character alphabet; 2 tokens"),
        H("c14::c14_pos_wide5", crate="hp", unwind=8, stubs=[PEST], timeout_s=600, bounds="5 scalar values over the 9-character alphabet; 2 tokens"),
        H("c14::c14_pos_narrow6", crate="hp", unwind=9, stubs=[PEST], timeout_s=600, bounds="6 scalar values over {CR, LF, a}; 2 tokens"),
        H("c14::c14_pos_wide6", crate="hp", unwind=9, stubs=[PEST], timeout_s=900, tiers=("thorough",), bounds="6 scalar values over the 9-character alphabet; 2 tokens"),
        H("c14::c14_pos_narrow8", crate="hp", unwind=11, stubs=[PEST], timeout_s=900, tiers=("thorough",), bounds="8 scalar values over {CR, LF, a}; 2 tokens"),
    ],
}

SLICE_ = "core::str::slice_error_fail -> panics immediately (same control flow as the original, which only formats the panic message first)"
PROPS["C13"] = {
    "title": "the parser builds the tree the document denotes (string decoding kernels only)",
    "files": ["parser/src/parse/utils.rs", "parser/src/graphql.pest"],
    "funcs": ["parse::utils::string_value (called by parse_string on the text matched by the grammar rule string_content)",
              "types::Type::new (called by parse_type on the text matched by the grammar rule type_)"],
    "claim": "for EVERY ASCII text of 1..4 bytes that the grammar rule string_content admits (reference recogniser of the rule in the "
             "harness) string_value returns exactly the StringValue the GraphQL spec defines (all eight simple escapes, raw characters) and "
             "does not panic; every non-ASCII scalar value (2-4 bytes) passes through unchanged; Type::new builds exactly the type a type "
             "expression denotes for 7 shapes (up to 3 wrappers) and every one-letter-or-underscore name prefix",
    "not_covered": "the pest grammar and the tree builders, i.e. WHICH documents are accepted (1 symbolic byte through parse_query does not "
                   "finish); \\uXXXX escapes (6-byte inputs exhaust 50 GB); block strings (block_string_value does not finish for 2-byte "
                   "inputs in 10 min); operation/fragment uniqueness, the 64-level limit",
    "assumptions": ["input is grammar-valid string content (the grammar guarantees it before the call); the recogniser is part of the oracle"],
    "harnesses": [
        H("c13::c13_string_ascii1", crate="hp", unwind=3, bounds="every grammar-valid ASCII string content of 1 byte"),
        H("c13::c13_string_ascii2", crate="hp", unwind=4, cls="L", mem_gb=6, timeout_s=600, bounds="every grammar-valid ASCII string content of 2 bytes"),
        H("c13::c13_string_ascii3", crate="hp", unwind=5, cls="L", mem_gb=12, timeout_s=900, bounds="every grammar-valid ASCII string content of 3 bytes"),
        H("c13::c13_string_ascii4", crate="hp", unwind=6, cls="L", mem_gb=20, timeout_s=1500, tiers=("thorough",), bounds="every grammar-valid ASCII string content of 4 bytes"),
        H("c13::c13_string_nonascii", crate="hp", unwind=6, cls="L", mem_gb=20, timeout_s=1500, tiers=("thorough",), bounds="every non-ASCII Unicode scalar value, followed by 'z' when shorter than 4 bytes"),
    ] + [H("c13::types::c13_type_new%d" % i, crate="hp", unwind=5, stubs=[SLICE_], timeout_s=600,
           bounds="type expression shape #%d of [T, T!, [T], [T]!, [T!], [T!]!, [[T]!]]; name = any letter or '_' followed by 'Z'" % i) for i in range(7)],
}

PROPS["C15"] = {
    "title": "values print as GraphQL literals (printer kernels)",
    "files": ["value/src/lib.rs", "value/src/value_serde.rs"],
    "funcs": ["impl Display for ConstValue", "write_quoted", "write_list (value/src/lib.rs), executed through the real core::fmt machinery into a fixed sink",
              "ConstValue::into_json / from_json (value/src/lib.rs) = impl Serialize / Deserialize for ConstValue (value/src/value_serde.rs) driven by serde_json's real value (de)serializer"],
    "claim": "for EVERY Unicode scalar value c of a class, printing ConstValue::String(c) yields a quoted text whose content is valid GraphQL "
             "string content denoting exactly c (reference decoder in the harness: escapes, \\uXXXX with hex digits, raw UTF-8); null, "
             "booleans and one-digit integers print as their tokens; JSON clause for the scalar kinds: into_json maps null, both booleans, EVERY i64, "
             "EVERY u64, EVERY finite f64, every one-byte ASCII string to the JSON value of the same kind and content and from_json maps it "
             "back to the same value (numbers compared through serde_json::Number's exact accessors, floats bit-exactly); an enum value "
             "(one-letter name) becomes the JSON string of its name",
    "not_covered": "re-parsing through the real parser (pest), strings of more than one character, lists/objects (a 2-item list does not "
                   "finish in 10 min; JSON arrays/objects likewise: IndexMap), floats and multi-digit integers in the printer (std's formatting "
                   "loops), Binary, the non-const Value's Variable case, the raw_value feature",
    "assumptions": [],
    "harnesses": [
        H("c15::c15_quote_c0", crate="hv", unwind=6, cls="L", mem_gb=4, timeout_s=600, bounds="every C0 control character U+0000..U+001F"),
        H("c15::c15_quote_ascii", crate="hv", unwind=6, cls="L", mem_gb=4, timeout_s=600, bounds="every ASCII character U+0020..U+007F"),
        H("c15::c15_print_scalars", crate="hv", unwind=6, cls="L", mem_gb=4, timeout_s=600, bounds="null, both booleans, integers -9..=9"),
        H("c15::c15_json_bool_null", crate="hv", unwind=4, stubs=[FMT], bounds="Null, both booleans: into_json and from_json"),
        H("c15::c15_json_numbers", crate="hv", unwind=4, stubs=[FMT], bounds="every i64, every u64, every finite f64: into_json and from_json",
          assumes=["f64 finite (serde_json::Number cannot hold non-finite floats)"]),
        H("c15::c15_json_string_enum", crate="hv", unwind=4, stubs=[FMT], bounds="every 1-byte ASCII string (both directions); every one-letter enum name -> JSON string"),
        H("c15::c15_quote_latin", crate="hv", unwind=6, cls="L", mem_gb=22, timeout_s=1800, tiers=("thorough",), bounds="every 2-byte scalar value U+0080..U+07FF"),
        H("c15::c15_quote_bmp", crate="hv", unwind=6, cls="L", mem_gb=24, timeout_s=2400, tiers=("thorough",), bounds="every 3-byte scalar value U+0800..U+FFFF"),
        H("c15::c15_quote_astral", crate="hv", unwind=6, cls="L", mem_gb=24, timeout_s=2400, tiers=("thorough",), bounds="every 4-byte scalar value"),
    ],
}

PROPS["C32"] = {
    "title": "connection cursors round-trip and pagination arguments are checked",
    "files": ["src/types/connection/cursor.rs", "src/types/connection/mod.rs"],
    "funcs": ["connection::query_with::<u8, ...> (src/types/connection/mod.rs)", "<T as CursorType>::{encode_cursor, decode_cursor} for u8, i8, u16, i16, bool, char"],
    "claim": "for every first/last in Option<i32> and every ASCII cursor string of 0..3 bytes (or none) as after or before, query_with "
             "invokes the page-fetching closure iff first >= 0, last >= 0 and the cursor decodes (reference u8 parser in the harness), "
             "passes it exactly the decoded values (with both cursors present, 1 byte each: each in its own position), and otherwise returns an error without invoking it; decode(encode(v)) == v for every "
             "u8, i8, u16, i16, bool and ASCII char (thorough: every u32)",
    "not_covered": "i32 and wider integers (i32 does not finish in 25 min) and floats (Grisu), String/ID cursors (identity), "
                   "OpaqueCursor (base64 + serde_json), page info's start/end cursors (async resolver over a Context), both cursors "
                   "present with more than one byte each",
    "assumptions": ["the closure's future is immediately ready (polled once with a no-op waker)"],
    "harnesses": [
        H("c32::c32_gate0", crate="hm", unwind=5, stubs=[FMT], bounds="first,last: any Option<i32>; after: none or \"\""),
        H("c32::c32_gate1", crate="hm", unwind=5, stubs=[FMT], bounds="first,last: any Option<i32>; after: none or any 1-byte ASCII string"),
        H("c32::c32_gate2", crate="hm", unwind=5, stubs=[FMT], bounds="first,last: any Option<i32>; after: none or any 2-byte ASCII string"),
        H("c32::c32_gate3", crate="hm", unwind=6, stubs=[FMT], bounds="first,last: any Option<i32>; after: none or any 3-byte ASCII string"),
        H("c32::c32_gate2_before", crate="hm", unwind=5, stubs=[FMT], bounds="first,last: any Option<i32>; before: none or any 2-byte ASCII string"),
        H("c32::c32_gate_both", crate="hm", unwind=5, stubs=[FMT], bounds="first,last: any Option<i32>; after AND before: each none or any 1-byte ASCII string (each decoded value must arrive in its own position)"),
        H("c32::c32_rt_u8", crate="hm", unwind=6, bounds="every u8"),
        H("c32::c32_rt_i8", crate="hm", unwind=6, bounds="every i8"),
        H("c32::c32_rt_u16", crate="hm", unwind=8, bounds="every u16"),
        H("c32::c32_rt_i16", crate="hm", unwind=8, bounds="every i16", timeout_s=600),
        H("c32::c32_rt_u32", crate="hm", unwind=13, cls="L", mem_gb=4, timeout_s=3000, tiers=("thorough",), bounds="every u32 (24 min)"),
        H("c32::c32_rt_bool", crate="hm", unwind=7, bounds="both booleans"),
        H("c32::c32_rt_char_ascii", crate="hm", unwind=6, bounds="every ASCII char"),
    ],
}

SLICE = "core::str::slice_error_fail -> panics immediately (same control flow as the original, which only formats the panic message first)"
_c09 = [
    H("c09::c09_cons_forwards_structure", crate="hm", unwind=30, stubs=[RS], bounds="callback any of #0..11 (document, operation, fragment, variable, directive, argument); composite of 3 recorders"),
    H("c09::c09_cons_forwards_selection", crate="hm", unwind=30, stubs=[RS], bounds="callback any of #12..21 (selection set, selection, field, spread, inline fragment)"),
    H("c09::c09_cons_forwards_input_value", crate="hm", unwind=30, stubs=[RS], bounds="callback any of #22..23 (enter/exit_input_value)"),
]
for _i, _j in [(2, 3), (2, 5)]:
    _c09.append(H("c09::c09_type_compat_%d_%d" % (_i, _j), crate="hm", unwind=5, stubs=[SLICE], cls="L", mem_gb=14, timeout_s=1500,
                  tiers=("thorough",),
                  bounds="location type [T] x variable type %s; both names solver-chosen from two names" % ("[T]!" if _j == 3 else "[T!]!")))
PROPS["C09"] = {
    "title": "strict validation = spec (visitor composition and type compatibility kernels)",
    "files": ["src/validation/visitor.rs", "src/registry/mod.rs", "src/validation/mod.rs"],
    "funcs": ["VisitorNil::with / VisitorCons (src/validation/visitor.rs) - the combinator check_rules composes all 22 rules with",
              "MetaTypeName::create, MetaTypeName::is_subtype (src/registry/mod.rs) - the relation VariableInAllowedPosition applies"],
    "claim": "invoking ANY of the 24 Visitor callbacks (solver-chosen) on the composite VisitorNil.with(a).with(b).with(c) invokes exactly "
             "that callback exactly once on each member, so every rule composed by check_rules sees every event of the walk; "
             "thorough tier: location.is_subtype(variable) equals the spec's AreTypesCompatible for the location [T] against the variable "
             "types [T]! and [T!]! (the pairs of the fixed defect) for every choice of the two names. The full 9x9 table of type shapes was "
             "decided once before the fix (81 harnesses, all green except the defect pairs); after the fix the generic non-null arm makes "
             "CBMC's exploration of the recursion exhaust 20 GB on most pairs, so they are NOT registered",
    "not_covered": "the 22 rule visitors themselves and check_rules as a whole (populated registry + HashMaps are outside reach): which "
                   "documents strict mode rejects is NOT decided beyond these two mechanisms",
    "assumptions": [],
    "harnesses": _c09,
}

_c16 = [H("c16::c16_ser_%s" % t, crate="hv", unwind=4, stubs=[FMT], bounds="every %s" % t) for t in ["i8", "i16", "i32", "i64", "u8", "u16", "u32", "u64"]]
_c16 += [
    H("c16::c16_ser_bool_unit_option", crate="hv", unwind=4, stubs=[FMT], bounds="both bools; (); every Option<u8>"),
    H("c16::c16_ser_f64", crate="hv", unwind=4, stubs=[FMT], bounds="every f64 bit pattern (non-finite -> Null)"),
    H("c16::c16_ser_f32", crate="hv", unwind=4, stubs=[FMT], bounds="every f32 bit pattern"),
    H("c16::c16_ser_enum_newtype", crate="hv", unwind=4, stubs=[FMT], bounds="3 unit variants (solver-chosen); newtype struct over every u16"),
    H("c16::c16_de_bool_unit_option", crate="hv", unwind=4, stubs=[FMT], bounds="both bools, unit, Option<bool> from Null / Boolean"),
    H("c16::c16_de_wide_numbers", crate="hv", unwind=4, stubs=[FMT], bounds="every i64, every u64, every finite f64 from the Number denoting it"),
    H("c16::c16_ser_de_string0", crate="hv", unwind=4, stubs=[FMT], bounds="the empty string: to_value and from_value round trip"),
    H("c16::c16_ser_de_string2", crate="hv", unwind=4, stubs=[FMT], bounds="every ASCII string of 2 bytes: to_value and from_value round trip"),
]
PROPS["C16"] = {
    "title": "serde values convert to GraphQL values and back (scalar leaves)",
    "files": ["value/src/serializer.rs", "value/src/deserializer.rs"],
    "funcs": ["async_graphql_value::to_value / Serializer::serialize_{bool,i8..u64,f32,f64,unit,none,some,unit_variant,newtype_struct}",
              "async_graphql_value::from_value / ConstValue as Deserializer for bool, (), Option<bool>, i64, u64, f64"],
    "claim": "to_value(&v) is exactly the ConstValue that denotes v for every v of bool, i8..i64, u8..u64, f32, f64 (non-finite -> Null), (), "
             "Option<u8>, a 3-variant unit-only enum and a newtype struct over u16; from_value returns the denoted value for bool, (), "
             "Option<bool>, every i64, every u64, every finite f64 and every ASCII string of 0 or 2 bytes - for these types the two compose to the "
             "round trip",
    "not_covered": "longer / non-ASCII strings, bytes, maps, sequences and tuples (the 2-element harness c16_ser_tuple_seq does not finish in 15 min), structs, data-carrying enum variants, nesting, narrow integer targets on the "
                   "deserializer side (their range-error path builds its message through serde's Error::custom -> to_string, which does not "
                   "finish); Option<Option<T>>, non-finite floats and char are outside the family the property quantifies over",
    "assumptions": [],
    "harnesses": _c16,
}

PROPS["C12"] = {
    "title": "no client input can crash the server (panic-freedom of input kernels)",
    "files": ["src/types/upload.rs", "parser/src/parse/utils.rs"],
    "funcs": ["<Upload as InputType>::parse (src/types/upload.rs)", "Upload::value (src/types/upload.rs) over a hand-built Context (verif-hooks constructors, empty registry)",
              "parse::utils::string_value (parser) - via the C13 harnesses"],
    "claim": "Upload::parse on the internal marker '#__graphql_file__:' followed by ANY ASCII suffix of 0..3 bytes never panics, accepts "
             "exactly the suffixes that denote an index and yields that index; every other value kind is rejected without panicking; "
             "Upload::value, for EVERY usize index (forged markers reach it with any index), returns an error and does not panic when the request carries no file; "
             "string_value never panics on grammar-valid string content of <= 3 ASCII bytes (Kani checks every panic, overflow, "
             "out-of-bounds access and unwrap on these paths)",
    "not_covered": "stack exhaustion in the pest parser and the AST builders, JSON / multipart / WebSocket decoding, HTTP query strings, "
                   "Upload::value with files present (UploadValue::try_clone over Bytes / a temp file), "
                   "request extensions - all inside dependencies or the executor, which cannot be encoded",
    "assumptions": [],
    "harnesses": [
        H("c12::c12_upload_marker0", crate="hm", unwind=20, stubs=[FMT, SLICE], bounds="marker + empty suffix"),
        H("c12::c12_upload_marker1", crate="hm", unwind=20, stubs=[FMT, SLICE], bounds="marker + every 1-byte ASCII suffix"),
        H("c12::c12_upload_marker2", crate="hm", unwind=20, stubs=[FMT, SLICE], bounds="marker + every 2-byte ASCII suffix", timeout_s=600),
        H("c12::c12_upload_marker3", crate="hm", unwind=20, stubs=[FMT, SLICE], bounds="marker + every 3-byte ASCII suffix", timeout_s=900, tiers=("thorough",)),
        H("c12::c12_upload_other", crate="hm", unwind=20, stubs=[FMT, SLICE], bounds="absent, Null, Boolean(any), String(\"\"), String(1 ASCII byte), List([])"),
        H("c12::c12_upload_value_no_files", crate="hm", unwind=3, stubs=[FMT, RS], bounds="every usize index; request without files (Context built from an empty registry, a mutation operation with one field)"),
        H("c13::c13_string_ascii1", crate="hp", unwind=3, bounds="every grammar-valid ASCII string content of 1 byte"),
        H("c13::c13_string_ascii2", crate="hp", unwind=4, cls="L", mem_gb=6, timeout_s=600, bounds="every grammar-valid ASCII string content of 2 bytes"),
        H("c13::c13_string_ascii3", crate="hp", unwind=5, cls="L", mem_gb=12, timeout_s=900, tiers=("thorough",), bounds="every grammar-valid ASCII string content of 3 bytes"),
    ],
}

PROPS["C17"] = {
    "title": "exported SDL is valid (string-escaping kernels of the exporter)",
    "files": ["src/registry/export_sdl.rs"],
    "funcs": ["registry::export_sdl::escape_string (deprecation reasons)", "registry::export_sdl::write_description (single-line mode)"],
    "claim": "for EVERY ASCII string of 1 byte, escape_string(s) is valid GraphQL string content that denotes s (reference decoder of "
             "the crate's own string_content rule), so the emitted @deprecated(reason: \"...\") is a string literal for every reason",
    "not_covered": "write_description (the single-line harness exists but does not finish in 20 min; a backslash or lone CR in a single-line description is NOT escaped - seen by reading, not decided), everything structural in export_sdl.rs (type/field/directive printers over the registry), option combinations, block-mode "
                   "descriptions, re-parsing with parse_schema, non-ASCII text, strings longer than 1 byte (2-byte inputs exhaust 22 GB)",
    "assumptions": [],
    "harnesses": [
        H("c17::c17_escape1_low", crate="hm", unwind=6, cls="L", mem_gb=8, timeout_s=900, bounds="every 1-byte string U+0000..U+003F (controls, quote, digits)"),
        H("c17::c17_escape1_high", crate="hm", unwind=6, cls="L", mem_gb=8, timeout_s=900, bounds="every 1-byte string U+0040..U+007F (letters, backslash, DEL)"),
    ],
}

PROPS["C21"] = {
    "title": "secret arguments never appear in stringified documents (value printer kernel)",
    "files": ["src/registry/stringify_exec_doc.rs"],
    "funcs": ["Registry::stringify_input_value (src/registry/stringify_exec_doc.rs)"],
    "claim": "for a scalar argument (String of any lowercase letter, any one-digit integer, any boolean, null - one harness per kind) "
             "with the secret flag solver-chosen: the output is exactly the mask \"<secret>\" iff the argument is "
             "marked secret, and the value's GraphQL literal otherwise; a secret value never reaches the output",
    "not_covered": "list arguments (a one-item list does not finish in 20 min), input objects with secret fields (needs a populated registry: BTreeMap<String, MetaType> + IndexMap lookups), the "
                   "selection-set walk (inline fragments without type condition, named fragments), variable default values printed in the "
                   "operation header - the mechanisms the property names beyond the value printer are NOT decided",
    "assumptions": [],
    "harnesses": [
        H("c21::c21_secret_string", crate="hm", unwind=6, timeout_s=900, stubs=[RS], bounds="String(any letter a..z) x secret flag"),
        H("c21::c21_secret_number", crate="hm", unwind=6, timeout_s=900, stubs=[RS], bounds="Number(0..9) x secret flag"),
        H("c21::c21_secret_bool_null", crate="hm", unwind=6, timeout_s=900, stubs=[RS], bounds="Boolean(any), Null x secret flag"),
    ],
}

_c06n = ["opt_absent", "opt_null", "opt_number", "opt_wrong_kind", "mu_absent", "mu_null", "mu_number", "vec_single", "vec_list0",
         "vec_absent", "vec_null", "vecopt_absent", "vecopt_null", "optvec_absent", "optvec_null", "optvec_single",
         "vec_wrong_kind", "deque_absent_null", "dequeopt_absent_null", "deque_single", "deque_list0", "deque_wrong_kind",
         "llist_absent_null", "llistopt_absent_null", "llist_single", "llist_list0", "llist_wrong_kind",
         "bset_absent_null", "bsetopt_absent_null", "bset_single", "bset_list0", "bset_wrong_kind",
         "hset_absent_null", "hsetopt_absent_null",
         "boxslice_absent_null", "boxsliceopt_absent_null", "boxslice_single", "boxslice_list0",
         "arcslice_absent_null", "arcsliceopt_absent_null", "arcslice_single"]
PROPS["C06"] = {
    "title": "resolvers receive exactly the spec-coerced argument values (coercion kernels)",
    "files": ["src/types/external/optional.rs", "src/types/external/list/vec.rs", "src/types/external/list/vec_deque.rs",
              "src/types/external/list/linked_list.rs", "src/types/external/list/btree_set.rs", "src/types/external/list/hash_set.rs", "src/types/external/list/slice.rs",
              "src/types/maybe_undefined.rs", "src/types/external/integers.rs", "src/context.rs"],
    "funcs": ["<Option<i32> as InputType>::parse", "<MaybeUndefined<i32> as InputType>::parse", "<Vec<i32> as InputType>::parse",
              "<Vec<Option<i32>> as InputType>::parse", "<Option<Vec<i32>> as InputType>::parse",
              "<VecDeque<i32> | LinkedList<i32> | BTreeSet<i32> as InputType>::parse (absent, null, single value, [], wrong kind)",
              "<VecDeque<Option<i32>> | LinkedList<Option<i32>> | BTreeSet<Option<i32>> | HashSet<i32> | HashSet<Option<i32>> as InputType>::parse (absent, null)",
              "<Box<[i32]> | Arc<[i32]> | Box<[Option<i32>]> | Arc<[Option<i32>]> as InputType>::parse (absent, null; single value, [] for the non-optional item type)"],
    "claim": "for each wrapper type over Int and each enumerated input shape (absent, null, Number(n) for EVERY i64 n, Boolean, String, []) InputType::parse returns exactly what the spec's input coercion gives: absent vs null distinguished only by "
             "MaybeUndefined; a single value becomes a one-element list; a wrong kind is an error; an "
             "out-of-range n is an error; null for a non-null list is an error; the same rules for the other list containers that have their own "
             "parse (VecDeque, LinkedList, BTreeSet: absent, null, single value for every i64, [], Boolean; HashSet: absent and null; Box<[T]> and Arc<[T]>: absent, null, single value, [] - "
             "the null rule for Box/Arc<[Option<Int>]> was violated on the pinned tree and is fixed, see known_findings.txt)",
    "not_covered": "HashSet with items (hash-map insertion does not finish), fixed-size arrays; the argument/variable plumbing in ContextBase::param_value (variable defaults, argument defaults): the harnesses exist "
                   "(harness/hm/src/c06p.rs, over a hand-built Context) and replay natively, but do not finish under Kani in 25 min - they are "
                   "NOT registered; derive-generated InputObject / OneofObject parsing, dynamic-schema value accessors, 'the resolver is not "
                   "invoked on error'; non-empty list literals ([n], [n, null]: the harnesses c06_vec_list1, c06_vec_list_null_item, c06_vecopt_list2 "
                   "exist but do not finish in 20 min)",
    "assumptions": [],
    "harnesses": [H("c06::c06_%s" % n, crate="hm", unwind=5, stubs=[FMT],
                    **({"cls": "L", "mem_gb": 20, "timeout_s": 1500, "tiers": ("thorough",)} if n in ("vec_list1", "vec_list_null_item", "vecopt_list2") else {"timeout_s": 900}),
                    bounds="shape %s; numbers: every i64 / i32 (absent/null shapes are concrete)" % n) for n in _c06n],
}

_c01 = [H("c01::c01_leaf_%s" % t, crate="hm", unwind=3, bounds="every value of the type") for t in
        ["i8", "i16", "i32", "i64", "isize", "u8", "u16", "u32", "u64", "usize", "nzi8", "nzi32", "nzi64", "nzu8", "nzu32", "nzu64"]]
_c01 += [
    H("c01::c01_leaf_f64", crate="hm", unwind=3, bounds="every f64 bit pattern"),
    H("c01::c01_leaf_f64_finite", crate="hm", unwind=3, bounds="every finite f64", assumes=["complement run of the recorded finding: value is finite"]),
    H("c01::c01_leaf_f32", crate="hm", unwind=3, bounds="every f32 bit pattern"),
    H("c01::c01_leaf_f32_finite", crate="hm", unwind=3, bounds="every finite f32", assumes=["complement run: value is finite"]),
    H("c01::c01_leaf_bool_char", crate="hm", unwind=6, bounds="both booleans; every Unicode scalar value"),
]
PROPS["C01"] = {
    "title": "query results follow the spec (LEAF SERIALIZATION ONLY)",
    "files": ["src/types/external/integers.rs", "src/types/external/non_zero_integers.rs", "src/types/external/floats.rs",
              "src/types/external/bool.rs", "src/types/external/char.rs"],
    "funcs": ["<T as ScalarType>::to_value for the built-in scalar types (the value a leaf resolver result puts into the response)"],
    "claim": "LEAF SERIALIZATION ONLY: for every value of every built-in integer scalar, to_value is the integral Number equal to it; for "
             "every finite f32/f64 the Number equal to it; Boolean and Char leaves keep their kind - so a leaf never serializes to null or "
             "to another kind. Recorded finding: non-finite floats serialize to null",
    "not_covered": "MOST of C01: field collection against the registry, fragment type conditions, @skip/@include pruning "
                   "(remove_skipped_selection does not finish: drop glue inside Vec::retain), interface/union dispatch, list completion, "
                   "null propagation, everything the derive macros generate. A green C01 must NOT be read as 'execution follows the spec'",
    "assumptions": [],
    "harnesses": _c01,
}

PROPS["C10"] = {
    "title": "depth, complexity, recursion and directive limits are enforced exactly (limit kernels)",
    "files": ["src/schema.rs", "src/validation/visitors/depth.rs", "src/validation/visitors/complexity.rs", "src/validation/visitor.rs"],
    "funcs": ["schema::check_recursive_depth", "schema::check_max_directives", "DepthCalculate / ComplexityCalculate enter_field, exit_field, "
              "enter_document, exit_document composed with VisitorCons as in check_rules"],
    "claim": "check_recursive_depth rejects exactly when the nesting (0 or 1 wrapper: a field with a sub-selection, an inline fragment) exceeds "
             "the limit, for EVERY usize limit; check_max_directives rejects exactly when a field's directive count (0, 1, 2) exceeds EVERY "
             "usize limit; the real depth and complexity visitors, driven by every "
             "well-nested script of up to 6 field events, report the maximum nesting and the number of fields; a field's own complexity rule is applied whether "
             "or not the selection carries an alias (one field under a parent type with a one-entry field table)",
    "not_covered": "nesting deeper than one wrapper and fragment spreads in the limit checks (2-wrapper chains exceed 25 min), the comparison of the measures with "
                   "the configured limits inside check_rules (needs a registry entry for the root type), the complexity closures the derive macro "
                   "generates (arguments, variables), dynamic schemas, 'before any resolver runs'",
    "assumptions": [],
    "harnesses": [
        H("c10::c10_rec_depth_chain_f", crate="hm", unwind=3, cls="L", mem_gb=10, timeout_s=1500, stubs=[FMT, RS], bounds="field{leaf}; every usize limit"),
        H("c10::c10_max_directives_1", crate="hm", unwind=3, cls="L", mem_gb=13, timeout_s=1800, stubs=[FMT, RS], bounds="a field with 1 directive; every usize limit"),
        H("c20::field::c20_field_measures_alias", crate="hm", unwind=6, cls="L", mem_gb=26, timeout_s=1800, stubs=[FMT, RS], 
          bounds="the three measuring visitors (composed as in check_rules) over ONE field `x: f` (aliased) selected on a parent object type that declares it with a solver-chosen cache hint (bool, i32 >= -1) and its own complexity rule (child + 41)",
          assumes=["max_age >= -1"]),
        H("c20::field::c20_field_measures_plain", crate="hm", unwind=6, cls="L", mem_gb=26, timeout_s=1800, stubs=[FMT, RS], tiers=("thorough",),
          bounds="the three measuring visitors (composed as in check_rules) over ONE field `f` selected on a parent object type that declares it with a solver-chosen cache hint (bool, i32 >= -1) and its own complexity rule (child + 41)",
          assumes=["max_age >= -1"]),
        H("c10::c10_depth_complexity2", crate="hm", unwind=8, stubs=[FMT, RS], bounds="every well-nested script of 2 field events"),
        H("c10::c10_depth_complexity4", crate="hm", unwind=8, stubs=[FMT, RS], bounds="every well-nested script of 4 field events"),
        H("c10::c10_depth_complexity6", crate="hm", unwind=8, stubs=[FMT, RS], timeout_s=900, bounds="every well-nested script of 6 field events"),
        H("c10::c10_rec_depth_chain_0", crate="hm", unwind=3, cls="L", mem_gb=10, timeout_s=1500, stubs=[FMT, RS], tiers=("thorough",), bounds="no wrapper; every usize limit"),
        H("c10::c10_rec_depth_chain_i", crate="hm", unwind=3, cls="L", mem_gb=10, timeout_s=1500, stubs=[FMT, RS], tiers=("thorough",), bounds="inline{leaf}; every usize limit"),
        H("c10::c10_max_directives_0", crate="hm", unwind=3, cls="L", mem_gb=13, timeout_s=1800, stubs=[FMT, RS], tiers=("thorough",), bounds="a field with 0 directives; every usize limit"),
        H("c10::c10_max_directives_2", crate="hm", unwind=3, cls="L", mem_gb=13, timeout_s=1800, stubs=[FMT, RS], tiers=("thorough",), bounds="a field with 2 directives; every usize limit"),
    ],
}

PROPS["C22"] = {
    "title": "look-ahead lists every sub-field that will be resolved (collector kernel)",
    "files": ["src/look_ahead.rs"],
    "funcs": ["look_ahead::filter (the function behind Lookahead::field)"],
    "claim": "for a selection set of one or two FIELDS (names and the looked-up name solver-chosen from {a, b}) filter(name) returns exactly "
             "the fields of that name, in document order",
    "not_covered": "inline fragments and fragment spreads (the harnesses exist - c22_lookahead_one_inline, c22_lookahead_spread_* - but exhaust "
                   "20 GB / 30 min: CBMC explores the recursive arms with their HashMap lookups), SelectionField::arguments / directives (variable resolution through a Context), agreement with what the executor later "
                   "resolves, @skip/@include (removed earlier by remove_skipped_selection), selection sets of more than 2 items, nested "
                   "fragments",
    "assumptions": [],
    "harnesses": [
        H("c22::c22_lookahead_one_field", crate="hm", unwind=5, stubs=[RS], timeout_s=600, bounds="1 item: a field; names from {a,b}"),
        H("c22::c22_lookahead_siblings", crate="hm", unwind=5, stubs=[RS], timeout_s=600, bounds="2 sibling fields; names from {a,b}"),
    ],
}

_c33 = []
for _i in range(9):
    for _j in range(9):
        _c33.append(H("c33::c33_typeref_%d_%d" % (_i, _j), crate="hm", unwind=5, timeout_s=900,
                      tiers=("quick", "thorough") if _i in (0, 1) else ("thorough",),
                      bounds="supertype shape #%d x subtype shape #%d of [T, T!, [T], [T]!, [T!], [T!]!, [[T]], [[T]!], [[T!]]!]; names solver-chosen from {A,B}" % (_i, _j)))
PROPS["C33"] = {
    "title": "dynamic schemas build exactly when the type system is valid (type-compatibility kernel)",
    "files": ["src/dynamic/type_ref.rs", "src/dynamic/check.rs"],
    "funcs": ["dynamic::TypeRef::is_subtype (src/dynamic/type_ref.rs) - the relation check_is_valid_implementation applies to field and argument types"],
    "claim": "sup.is_subtype(sub) equals the spec's IsValidImplementationFieldType(sub, sup) (named types compared by name) for every pair of "
             "9 type shapes (up to two list levels, all nullability combinations) and every choice of the two names",
    "not_covered": "check_is_valid_implementation itself (the ORIENTATION of the call was wrong and is fixed, see known_findings.txt, but the "
                   "harness over Object/Interface does not finish in 18 min: IndexMap insertion), SchemaInner::check as a whole, named "
                   "covariance via interfaces/unions, input-object cycles, root types, post-build robustness",
    "assumptions": [],
    "harnesses": _c33,
}

NOT_APPLICABLE = {
    "C02": "dynamic execution: every mechanism (collect_fields, resolve) runs on a built dynamic::Schema and its Registry; schema construction alone exceeds what CBMC finishes (Schema::new > 25 min / 9 GB, DESIGN.md section 3)",
    "C03": "error nulling: the mechanism is add_error/? across nested async resolvers over a live QueryEnv; no unit smaller than the executor exhibits 'nearest nullable ancestor', and the executor cannot be encoded",
    "C04": "merged fields / serial mutations: observable only as resolver invocation order of boxed futures inside resolve_container_inner; needs schema + executor, outside CBMC's reach",
    "C05": "schedule independence quantifies over completion orders of concurrent futures; Kani treats futures and atomics sequentially and has no scheduler nondeterminism to make symbolic",
    "C11": "polynomial checking work is an asymptotic bound; at the document sizes CBMC can unroll (<= ~6 selections) exponential and polynomial work are indistinguishable, so any bounded assertion would be vacuous",
    "C18": "introspection consistency: __Schema/__Type resolvers over a populated registry through the executor; registry population (BTreeMap/HashMap of MetaType) and the executor are outside reach",
    "C19": "introspection modes: the mode tests are inline in QueryRoot::resolve_field / collect_fields, reachable only with schema + executor",
    "C23": "HTTP encodings: decoding is serde_urlencoded / serde_json / multer driven by derive visitors; symbolic buffers through them do not finish (parse_query with 1 symbolic byte > 20 min)",
    "C24": "multipart uploads: multer stream parsing and tempfile I/O cannot be encoded; the only pure piece (variable-path binding) is too small to stand for the property",
    "C25": "WebSocket protocol: histories x schedules over a HashMap of boxed streams, Instant::now, boxed init/ping futures and serde_json output; no bounded encoding within reach of Kani",
    "C26": "multipart/mixed framing: asynk_strim generator + select! (thread-local RNG) + timer futures + serde_json writer; not encodable",
    "C27": "subscription event isolation: interleavings of select_all streams over the shared error list; concurrency + executor",
    "C28": "DataLoader interleavings: scc::HashMap (lock-free, epoch reclamation, atomics), oneshot channels, spawner and timer; concurrency Kani does not model",
    "C29": "DataLoader cache histories: every operation goes through the scc map and async entry API; lru/hashbrown storages are heap containers outside reach (HashMap 2 inserts > 10 min)",
    "C30": "extension transparency: Next* chains of Arc<dyn Extension> around the executor; needs schema + executor",
    "C31": "persisted queries: SHA-256 hashing loop, async_trait objects, scc::HashCache and parse_query are all outside reach",
    "C34": "GraphiQL page: the oracle is a JavaScript/HTML tokenizer evaluating the generated page; rendering is askama-generated code over fmt with a dependency's HTML escaper",
    "C35": "GET never mutates: behaviour of five web-framework integrations' extractors (axum/actix/poem/warp/rocket request types, async I/O)",
}
for _p in []:
    NOT_APPLICABLE.setdefault(_p, "claim under construction in this session (harnesses planned in DESIGN.md section 4); listed here until its check is registered")
