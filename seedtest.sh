#!/bin/bash
# Usage: seedtest.sh <seed dir under /verif/seeded> <property id> [tier]
# Applies a seeded change to /repo, runs the check, and always undoes the change again.
S=$1; P=$2; T=${3:-quick}
cd /verif
git -C /repo apply "/verif/seeded/$S/patch.diff" || { echo "patch does not apply"; exit 2; }
./check "$P" --tier "$T" > "/verif/.work/logs/seedtest-$S-$P.log" 2>&1; rc=$?
git -C /repo apply -R "/verif/seeded/$S/patch.diff"
echo "seed=$S property=$P tier=$T exit=$rc $(grep -c '^VIOLATION' /verif/.work/logs/seedtest-$S-$P.log) violation line(s)"
grep "^VIOLATION\|^violation detail\|^INCONCLUSIVE" "/verif/.work/logs/seedtest-$S-$P.log" | head -5 | cut -c1-250
