#!/bin/bash
# Builds the harness crates (Kani codegen + native replay binaries) from files on disk only.
set -u
cd "$(dirname "$0")"
export CARGO_NET_OFFLINE=true CARGO_TERM_COLOR=never
mkdir -p .work/logs evidence
rc=0
for c in harness/*/; do
  c=$(basename "$c"); [ -f "harness/$c/Cargo.toml" ] || continue
  if [ -f /repo/Cargo.lock ]; then cp /repo/Cargo.lock "harness/$c/Cargo.lock"; else cp harness/Cargo.lock.base "harness/$c/Cargo.lock"; fi
  ( cd "harness/$c" && cargo kani --only-codegen -Z stubbing --target-dir "../../.work/$c-kani" > "../../.work/logs/setup-$c-kani.log" 2>&1 ) || { echo "kani codegen failed for $c (see .work/logs/setup-$c-kani.log)"; rc=1; }
  ( cd "harness/$c" && cargo build --bin replay --target-dir "../../.work/$c-native" > "../../.work/logs/setup-$c-native.log" 2>&1 ) || { echo "native build failed for $c"; rc=1; }
done
exit $rc
