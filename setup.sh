#!/bin/bash
# Builds the harness crates' dependencies (Kani codegen of one small harness per crate + native
# replay binaries) from files on disk only. Every ./check run rebuilds what it needs from /repo.
set -u
cd "$(dirname "$0")"
export CARGO_NET_OFFLINE=true CARGO_TERM_COLOR=never
mkdir -p .work/logs evidence
rc=0
declare -A FIRST=( [hm]="c20::c20_merge_laws" [hp]="c14::c14_pos_narrow3" [hv]="c16::c16_ser_i8" )
for c in hm hp hv; do
  if [ -f /repo/Cargo.lock ]; then cp /repo/Cargo.lock "harness/$c/Cargo.lock"; else cp harness/Cargo.lock.base "harness/$c/Cargo.lock"; fi
  ( cd "harness/$c" && cargo kani --only-codegen -Z stubbing --exact --harness "${FIRST[$c]}" --target-dir "../../.work/$c-kani" > "../../.work/logs/setup-$c-kani.log" 2>&1 ) || { echo "kani codegen failed for $c (see .work/logs/setup-$c-kani.log)"; rc=1; }
  ( cd "harness/$c" && cargo build --bin replay --target-dir "../../.work/$c-native" > "../../.work/logs/setup-$c-native.log" 2>&1 ) || { echo "native build failed for $c"; rc=1; }
done
exit $rc
